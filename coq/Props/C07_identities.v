(* C07: density x formation-volume-factor identities for gas, oil and water, on the model
   regenerated from gas.py / oil.py / water.py.  The root solver is an arbitrary function
   [brentq]: the identities hold whatever Z it returns (provided Z <> 0). *)
From Coq Require Import Reals Lra.
From Interval Require Import Tactic.
From BBLib Require Import PyPrelude.
From BBRun Require Import Gen_water Gen_gas Gen_oil.
Open Scope R_scope.

(* gas density is p M / (Z R T) with M = 28.964 * gravity, R = 10.73159, T in Rankine *)
Theorem C07_gas_density_is_real_gas_law : forall brentq T p Tpc Ppc sg,
  density_DAK brentq T p Tpc Ppc sg
  = p * ((28964 / 1000) * sg) / (z_factor_DAK brentq T p Tpc Ppc * (1073159 / 100000) * (T + 45967 / 100)).
Proof. intros. reflexivity. Qed.
Print Assumptions C07_gas_density_is_real_gas_law.

(* density times Bg is the standard-condition mass content: no pressure, no Z *)
Theorem C07_gas_density_times_Bg : forall brentq T p Tpc Ppc sg Tstd Pstd,
  z_factor_DAK brentq T p Tpc Ppc <> 0 -> p <> 0 -> T + 45967 / 100 <> 0 -> Tstd + 45967 / 100 <> 0 ->
  density_DAK brentq T p Tpc Ppc sg * b_factor_DAK brentq T p Tpc Ppc Tstd Pstd * (5615 / 1000)
  = Pstd * ((28964 / 1000) * sg) / ((1073159 / 100000) * (Tstd + 45967 / 100)).
Proof.
  intros brentq T p Tpc Ppc sg Tstd Pstd Hz Hp HT HTs.
  unfold density_DAK, b_factor_DAK; cbv zeta.
  set (z := z_factor_DAK brentq T p Tpc Ppc) in *. field. repeat split; try assumption; lra.
Qed.
Print Assumptions C07_gas_density_times_Bg.

(* oil: stock-tank oil plus dissolved gas *)
Theorem C07_oil_density_times_Bo : forall T p api gg Rsi,
  b_o_Standing T p api gg Rsi <> 0 ->
  density_Standing T p api gg Rsi * b_o_Standing T p api gg Rsi
  = (6237 / 100) * ((1415 / 10) / ((1315 / 10) + api)) + (136 / 10000) * gg * solution_gor_Standing T p api gg Rsi.
Proof.
  intros T p api gg Rsi Hb. unfold density_Standing; cbv zeta.
  set (bo := b_o_Standing T p api gg Rsi) in *.
  unfold Rdiv at 1. rewrite Rmult_assoc, Rinv_l by exact Hb. ring.
Qed.
Print Assumptions C07_oil_density_times_Bo.

(* water: brine density at standard conditions *)
Theorem C07_water_density_times_Bw : forall T p s,
  b_water_McCain T p <> 0 ->
  density_water_McCain T p s * b_water_McCain T p
  = 62368 / 1000 + (438603 / 1000000) * s + (160074 / 100000000) * s ^ 2.
Proof.
  intros T p s Hb. unfold density_water_McCain; cbv zeta.
  set (bw := b_water_McCain T p) in *.
  unfold Rdiv at 1. rewrite Rmult_assoc, Rinv_l by exact Hb. ring.
Qed.
Print Assumptions C07_water_density_times_Bw.

(* ... and Bw is indeed positive on the correlation's range, so the premise is met *)
Theorem C07_Bw_positive : forall T p, 32 <= T <= 400 -> 0 <= p <= 20000 -> 0 < b_water_McCain T p.
Proof.
  intros T p HT Hp. unfold b_water_McCain; cbv zeta.
  interval with (i_bisect T, i_bisect p, i_depth 12).
Qed.
Print Assumptions C07_Bw_positive.
