(* C05: forecast scaling law, bound validation, initial-guess regularisation, fixed-tau optimum.
   Model: forecast.py regenerated on every run (curve_fit itself is third-party and validated
   numerically). *)
From Coq Require Import Reals List Lra Lia.
From BBLib Require Import PyPrelude.
From BBRun Require Import Gen_forecast.
Import ListNotations.
Open Scope R_scope.

(* cumulative production = M * recovery(time / tau) *)
Theorem C05_forecast_is_M_times_recovery_of_scaled_time : forall (rf : R -> R) t M tau,
  forecast_cum_onephase rf t M tau = M * rf (t / tau).
Proof. reflexivity. Qed.
Print Assumptions C05_forecast_is_M_times_recovery_of_scaled_time.

Theorem C05_forecast_linear_in_M : forall (rf : R -> R) t M1 M2 a tau,
  forecast_cum_onephase rf t (a * M1 + M2) tau
  = a * forecast_cum_onephase rf t M1 tau + forecast_cum_onephase rf t M2 tau.
Proof. intros. unfold forecast_cum_onephase; cbv zeta. ring. Qed.
Print Assumptions C05_forecast_linear_in_M.

Theorem C05_forecast_invariant_under_joint_rescaling : forall (rf : R -> R) t M tau c,
  c <> 0 -> tau <> 0 -> forecast_cum_onephase rf (c * t) M (c * tau) = forecast_cum_onephase rf t M tau.
Proof.
  intros rf t M tau c Hc Htau. unfold forecast_cum_onephase; cbv zeta.
  replace (c * t / (c * tau)) with (t / tau) by (field; split; assumption). reflexivity.
Qed.
Print Assumptions C05_forecast_invariant_under_joint_rescaling.

(* malformed bounds are rejected: wrong lengths, or lower >= upper *)
Theorem C05_bounds_rejected_iff : forall M0 M1 tau0 tau1,
  Bounds_post_init M0 M1 tau0 tau1 = None <-> (M1 <= M0 \/ tau1 <= tau0).
Proof.
  intros. unfold Bounds_post_init.     (* the source tests `not lower < upper` (which also rejects NaN limits in floating point) *)
  destruct (Rlt_dec M0 M1) as [HM|HM]; cbn [negb].
  - destruct (Rlt_dec tau0 tau1) as [Ht|Ht]; cbn [negb].
    + split; [discriminate | intros [H|H]; lra].
    + split; [intros _; right; lra | reflexivity].
  - split; [intros _; left; lra | reflexivity].
Qed.
Print Assumptions C05_bounds_rejected_iff.

Theorem C05_bounds_of_wrong_length_rejected : forall a b c d e,
  Bounds_post_init_M1 a b c = None /\ Bounds_post_init_M3 a b c d e = None /\
  Bounds_post_init_tau1 a b c = None /\ Bounds_post_init_tau3 a b c d e = None.
Proof. intros. repeat split; reflexivity. Qed.
Print Assumptions C05_bounds_of_wrong_length_rejected.

Theorem C05_fit_bounds_shape : forall M0 M1 tau0 tau1,
  Bounds_fit_bounds M0 M1 tau0 tau1 = ((M0, tau0), (M1, tau1)).
Proof. reflexivity. Qed.
Print Assumptions C05_fit_bounds_shape.

(* the regularised guess lies inside the (well-formed, finite) box, and guesses already inside
   are left alone; hence regularisation is idempotent *)
Definition reg1 lo hi g := if Rlt_dec g lo then lo else if Rlt_dec hi g then (lo + hi) / 2 else g.

Lemma regularize_2_form M0 M1 tau0 tau1 g0 g1 :
  Bounds_regularize_2 M0 M1 tau0 tau1 g0 g1 = [reg1 M0 M1 g0; reg1 tau0 tau1 g1].
Proof.
  unfold Bounds_regularize_2, reg1.
  destruct (Rlt_dec g0 M0); [|destruct (Rlt_dec M1 g0)];
    (destruct (Rlt_dec g1 tau0); [|destruct (Rlt_dec tau1 g1)]); reflexivity.
Qed.
Lemma regularize_1_form M0 M1 tau0 tau1 g0 : Bounds_regularize_1 M0 M1 tau0 tau1 g0 = [reg1 M0 M1 g0].
Proof. unfold Bounds_regularize_1, reg1. destruct (Rlt_dec g0 M0); [|destruct (Rlt_dec M1 g0)]; reflexivity. Qed.

Lemma reg1_in_box lo hi g : lo < hi -> lo <= reg1 lo hi g <= hi.
Proof. intros H. unfold reg1. destruct (Rlt_dec g lo); [lra|]. destruct (Rlt_dec hi g); lra. Qed.
Lemma reg1_id lo hi g : lo <= g <= hi -> reg1 lo hi g = g.
Proof. intros H. unfold reg1. destruct (Rlt_dec g lo); [lra|]. destruct (Rlt_dec hi g); lra. Qed.

Theorem C05_regularized_guess_inside_bounds : forall M0 M1 tau0 tau1 g0 g1, M0 < M1 -> tau0 < tau1 ->
  exists a b, Bounds_regularize_2 M0 M1 tau0 tau1 g0 g1 = [a; b] /\ M0 <= a <= M1 /\ tau0 <= b <= tau1
              /\ Bounds_regularize_2 M0 M1 tau0 tau1 a b = [a; b]
              /\ (M0 <= g0 <= M1 -> a = g0) /\ (tau0 <= g1 <= tau1 -> b = g1).
Proof.
  intros M0 M1 tau0 tau1 g0 g1 HM Ht. exists (reg1 M0 M1 g0), (reg1 tau0 tau1 g1).
  pose proof (reg1_in_box M0 M1 g0 HM) as B1. pose proof (reg1_in_box tau0 tau1 g1 Ht) as B2.
  split; [apply regularize_2_form|]. split; [exact B1|]. split; [exact B2|].
  split; [rewrite regularize_2_form; rewrite (reg1_id M0 M1 (reg1 M0 M1 g0)) by exact B1;
          rewrite (reg1_id tau0 tau1 (reg1 tau0 tau1 g1)) by exact B2; reflexivity|].
  split; intros; now apply reg1_id.
Qed.
Print Assumptions C05_regularized_guess_inside_bounds.

Theorem C05_regularized_single_guess_inside_bounds : forall M0 M1 tau0 tau1 g0, M0 < M1 ->
  exists a, Bounds_regularize_1 M0 M1 tau0 tau1 g0 = [a] /\ M0 <= a <= M1 /\ (M0 <= g0 <= M1 -> a = g0).
Proof.
  intros. exists (reg1 M0 M1 g0). split; [apply regularize_1_form|]. split; [now apply reg1_in_box|].
  intros. now apply reg1_id.
Qed.
Print Assumptions C05_regularized_single_guess_inside_bounds.

(* with tau fixed the fit is a one-dimensional bounded least-squares problem
   minimise  S2 M^2 - 2 S1 M + S0,  S2 = sum r_i^2 > 0, S1 = sum r_i y_i;
   its optimum over [lo, hi] is the clipped ratio S1/S2 *)
Theorem C05_fixed_tau_bounded_optimum : forall S0 S1 S2 lo hi M, 0 < S2 -> lo <= hi -> lo <= M <= hi ->
  let Mstar := pyclip (S1 / S2) lo hi in
  S2 * Mstar ^ 2 - 2 * S1 * Mstar + S0 <= S2 * M ^ 2 - 2 * S1 * M + S0.
Proof.
  intros S0 S1 S2 lo hi M HS Hlh HM Mstar.
  set (u := S1 / S2). assert (HS1 : S1 = S2 * u) by (unfold u; field; lra). rewrite HS1.
  assert (Hq : forall m, S2 * m ^ 2 - 2 * (S2 * u) * m + S0 = S2 * (m - u) ^ 2 + (S0 - S2 * u ^ 2)) by (intros; ring).
  rewrite !Hq. apply Rplus_le_compat_r. apply Rmult_le_compat_l; [lra|].
  unfold Mstar, pyclip, Rmin, Rmax. fold u. clearbody u. clear Mstar HS1 Hq.
  destruct (Rle_dec u lo) as [H1|H1]; destruct (Rle_dec _ hi) as [H2|H2]; try lra.
  - apply pow_incr. lra.
  - replace (u - u) with 0 by ring. rewrite pow_i by lia. apply pow2_ge_0.
  - replace ((hi - u) ^ 2) with ((u - hi) ^ 2) by ring. replace ((M - u) ^ 2) with ((u - M) ^ 2) by ring.
    apply pow_incr. lra.
Qed.
Print Assumptions C05_fixed_tau_bounded_optimum.

(* the generating parameters have zero residual at every time *)
Theorem C05_zero_residual_at_generating_parameters : forall (rf : R -> R) M tau ts,
  fold_right Rplus 0 (map (fun t => (forecast_cum_onephase rf t M tau - M * rf (t / tau)) ^ 2) ts) = 0.
Proof.
  intros. induction ts as [|t ts IH]; [reflexivity|]. cbn [map fold_right]. rewrite IH.
  unfold forecast_cum_onephase; cbv zeta. ring.
Qed.
Print Assumptions C05_zero_residual_at_generating_parameters.

(* the forecasting method itself (regenerated from ForecasterOnePhase.forecast_cum): explicitly given M and tau are used
   as given - whatever the object was fitted to, and at the ends of the admissible range (M = 0 gives the zero forecast) -
   and only arguments that are None fall back to the fitted values *)
Theorem C05_forecast_method_uses_given_arguments : forall objM objtau (rf : R -> R) ts M tau,
  forecaster_forecast_cum_given objM objtau rf ts M tau = map (fun t => M * rf (t / tau)) ts.
Proof. reflexivity. Qed.
Print Assumptions C05_forecast_method_uses_given_arguments.

Theorem C05_forecast_method_zero_resource_gives_zero : forall objM objtau (rf : R -> R) ts tau,
  forecaster_forecast_cum_given objM objtau rf ts 0 tau = map (fun _ => 0) ts.
Proof.
  intros. rewrite C05_forecast_method_uses_given_arguments. apply map_ext. intros. ring.
Qed.
Print Assumptions C05_forecast_method_zero_resource_gives_zero.

Theorem C05_forecast_method_defaults_are_the_fitted_values : forall objM objtau (rf : R -> R) ts M tau,
  forecaster_forecast_cum_fitted objM objtau rf ts = map (fun t => objM * rf (t / objtau)) ts
  /\ forecaster_forecast_cum_fitted_tau objM objtau rf ts M = map (fun t => M * rf (t / objtau)) ts
  /\ forecaster_forecast_cum_fitted_M objM objtau rf ts tau = map (fun t => objM * rf (t / tau)) ts.
Proof. intros. repeat split; reflexivity. Qed.
Print Assumptions C05_forecast_method_defaults_are_the_fitted_values.
