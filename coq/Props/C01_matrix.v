(* C01/C04 tie 1: the matrix assembled by reservoir._build_matrix (translated from the source on
   every run) is, diagonal by diagonal, the matrix [rows_of] of the hand-written model that
   the maximum-principle theorems and the Thomas solve are about. *)
From Coq Require Import Reals List Lra Lia.
From BBLib Require Import PyPrelude NumSig Tridiag.
From BBRun Require Import Gen_reservoir.
Import ListNotations.
Open Scope R_scope.

Lemma low_rows_false (l : list R) :
  map (fun r : R * R * R => fst (fst r)) (rows_from NumR false l) = map Ropp l.
Proof.
  induction l as [|x t IH]; [reflexivity|].
  destruct t as [|y t'].
  - rewrite rows_from_single. simpl. f_equal. lra.
  - rewrite rows_from_cons2. cbn [map fst]. rewrite IH. simpl. f_equal. lra.
Qed.

Lemma set_last_cons2 (a b : R) (t : list R) v :
  set_last (a :: b :: t) v = a :: set_last (b :: t) v.
Proof. reflexivity. Qed.

Lemma main_rows (l : list R) : forall first, l <> [] ->
  map (fun r : R * R * R => snd (fst r)) (rows_from NumR first l)
  = set_last (sadd 1 (smul 2 l)) (1 + vlast l).
Proof.
  induction l as [|x t IH]; intros first Hne; [contradiction|].
  destruct t as [|y t'].
  - rewrite rows_from_single. reflexivity.
  - rewrite rows_from_cons2. cbn [map fst snd].
    rewrite IH by discriminate.
    change (sadd 1 (smul 2 (x :: y :: t'))) with ((1 + 2 * x) :: (1 + 2 * y) :: sadd 1 (smul 2 t')).
    rewrite set_last_cons2. f_equal.
Qed.

Lemma up_rows (l : list R) : forall first,
  map (fun r : R * R * R => snd r) (removelast (rows_from NumR first l)) = map Ropp (removelast l).
Proof.
  induction l as [|x t IH]; intros first; [reflexivity|].
  destruct t as [|y t'].
  - rewrite rows_from_single. reflexivity.
  - rewrite rows_from_cons2.
    change (removelast (x :: y :: t')) with (x :: removelast (y :: t')).
    assert (E : forall (r : R * R * R) rs, rs <> [] -> removelast (r :: rs) = r :: removelast rs).
    { intros r rs Hrs. destruct rs; [contradiction|reflexivity]. }
    rewrite E by (rewrite rows_from_cons2 || idtac; destruct t'; discriminate).
    cbn [map snd]. rewrite IH. f_equal. lra.
Qed.

Lemma build_matrix_is_rows_of (k : list R) : k <> [] ->
  build_matrix k = (diag_low (rows_of NumR k), diag_main (rows_of NumR k), diag_up (rows_of NumR k)).
Proof.
  intros Hne. unfold build_matrix, diag_low, diag_main, diag_up, rows_of; cbv zeta.
  f_equal; [f_equal|].
  - destruct k as [|x t]; [contradiction|].
    destruct t as [|y t']; [reflexivity|].
    rewrite rows_from_cons2. cbn [tl]. rewrite low_rows_false. reflexivity.
  - symmetry. apply main_rows. exact Hne.
  - symmetry. apply up_rows.
Qed.

Theorem C01_build_matrix_is_model_matrix : forall k : list R, k <> [] ->
  build_matrix k = (diag_low (rows_of NumR k), diag_main (rows_of NumR k), diag_up (rows_of NumR k)).
Proof. exact build_matrix_is_rows_of. Qed.
Print Assumptions C01_build_matrix_is_model_matrix.

(* recovery scaling: ideal gas 1 - p_f/p_i, real fluid 1 *)
Theorem C01_fvf_scale : forall pf pi, fvf_scale_ideal pf pi = 1 - pf / pi /\ fvf_scale_single = 1.
Proof. intros. split; reflexivity. Qed.
Print Assumptions C01_fvf_scale.
