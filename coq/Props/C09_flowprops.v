(* C09: the flow-property wrapper.  Model: Lib/Reservoir.v (fp_init, fp_init_simple,
   m_scaled_func, alpha_func, rescale_pseudopressure; R instance); tie: the float instance of the
   same definitions is run by vm_compute against FlowProperties / FlowPropertiesSimple /
   rescale_pseudopressure on generated tables and queries. *)
From Coq Require Import Reals List Lra Lia.
From BBLib Require Import NumSig Interp Reservoir InterpThms FlowPropsThms.
Import ListNotations.
Open Scope R_scope.

(* scaled pseudopressure is a strictly increasing function of pressure *)
Theorem C09_m_scaled_strictly_increasing :
  forall (tb : table (T := R)) p_i,
    (2 <= length (t_pressure tb))%nat -> length (t_pseudopressure tb) = length (t_pressure tb) ->
    incr (t_pressure tb) -> incr (t_pseudopressure tb) ->
    hd 0 (t_pressure tb) <= p_i <= last (t_pressure tb) 0 ->
    length (t_compressibility tb) = length (t_pressure tb) -> length (t_viscosity tb) = length (t_pressure tb) ->
    length (t_zfactor tb) = length (t_pressure tb) ->
    all_pos (t_pressure tb) /\ all_pos (t_compressibility tb) /\ all_pos (t_viscosity tb) /\ all_pos (t_zfactor tb) ->
    forall q1 q2, hd 0 (t_pressure tb) <= q1 -> q1 < q2 -> q2 <= last (t_pressure tb) 0 ->
      interp_lin NumR (t_pressure tb) (ms tb p_i) q1 < interp_lin NumR (t_pressure tb) (ms tb p_i) q2.
Proof. intros. now apply m_scaled_strictly_increasing. Qed.
Print Assumptions C09_m_scaled_strictly_increasing.

(* what the constructor returns, and that its value at p_i is the reported m_i *)
Theorem C09_constructor_and_m_i :
  forall (tb : table (T := R)) p_i, t_alpha tb = None ->
    (2 <= length (t_pressure tb))%nat -> length (t_pseudopressure tb) = length (t_pressure tb) ->
    incr (t_pressure tb) ->
    length (t_compressibility tb) = length (t_pressure tb) -> length (t_viscosity tb) = length (t_pressure tb) ->
    length (t_zfactor tb) = length (t_pressure tb) ->
    hd 0 (t_pressure tb) <= p_i <= last (t_pressure tb) 0 ->
    exists fp, fp_init NumR tb p_i = Some fp /\ fp_mscaled fp = ms tb p_i
               /\ m_scaled_func NumR fp p_i = Some (fp_m_i fp).
Proof.
  intros tb p_i Hna Hn Hl Hinc Hc Hm Hz Hr. eexists. split; [now apply fp_init_computed|]. split; [reflexivity|].
  unfold m_scaled_func. cbn [fp_pressure fp_mscaled fp_m_i].
  rewrite interp1d_strict_inside; auto. unfold ms. now rewrite map_length.
Qed.
Print Assumptions C09_constructor_and_m_i.

Theorem C09_alpha_at_nodes_is_inverse_c_mu :
  forall (tb : table (T := R)) p_i,
    (2 <= length (t_pressure tb))%nat -> length (t_pseudopressure tb) = length (t_pressure tb) ->
    incr (t_pressure tb) -> incr (t_pseudopressure tb) ->
    hd 0 (t_pressure tb) <= p_i <= last (t_pressure tb) 0 -> t_alpha tb = None ->
    length (t_compressibility tb) = length (t_pressure tb) -> length (t_viscosity tb) = length (t_pressure tb) ->
    length (t_zfactor tb) = length (t_pressure tb) ->
    all_pos (t_pressure tb) /\ all_pos (t_compressibility tb) /\ all_pos (t_viscosity tb) /\ all_pos (t_zfactor tb) ->
    forall fp j, fp_init NumR tb p_i = Some fp -> (j < length (t_pressure tb))%nat ->
      alpha_func NumR fp (nth j (fp_mscaled fp) 0) = 1 / (nth j (t_compressibility tb) 0 * nth j (t_viscosity tb) 0).
Proof. intros. eapply alpha_at_nodes; eauto. Qed.
Print Assumptions C09_alpha_at_nodes_is_inverse_c_mu.

(* a diffusivity lookup at ANY real query is within the table's positive range *)
Theorem C09_alpha_lookup_within_positive_table_range :
  forall (ms a : list R) (q : R), incr ms -> length a = length ms -> (2 <= length ms)%nat -> all_pos a ->
    let lo := lmin NumR (hd 0 a) a in let hi := lmax NumR (hd 0 a) a in
    0 < lo /\ lo <= interp_fill NumR lo hi ms a q <= hi.
Proof. exact alpha_lookup_within_table_range. Qed.
Print Assumptions C09_alpha_lookup_within_positive_table_range.

Theorem C09_initial_pressure_outside_table_rejected :
  forall (tb : table (T := R)) p_i, p_i < hd 0 (t_pressure tb) \/ last (t_pressure tb) 0 < p_i ->
    fp_init NumR tb p_i = None /\ fp_init_simple NumR tb p_i = None.
Proof. intros. split; [now apply fp_init_outside_table_fails|now apply fp_init_simple_outside_table_fails]. Qed.
Print Assumptions C09_initial_pressure_outside_table_rejected.

(* user-supplied diffusivity: m_i is 1 at table nodes and in [1, AM/HM bound] between them *)
Theorem C09_user_alpha_m_i :
  forall (tb : table (T := R)) p_i a, t_alpha tb = Some a ->
    (2 <= length (t_pressure tb))%nat -> length (t_pseudopressure tb) = length (t_pressure tb) ->
    incr (t_pressure tb) -> all_pos (t_pseudopressure tb) ->
    hd 0 (t_pressure tb) <= p_i <= last (t_pressure tb) 0 ->
    (exists fp, fp_init NumR tb p_i = Some fp /\ fp_m_i fp = interp_lin NumR (t_pressure tb) (ums tb p_i) p_i) /\
    1 <= interp_lin NumR (t_pressure tb) (ums tb p_i) p_i /\
    (forall j, (j < length (t_pressure tb))%nat -> p_i = nth j (t_pressure tb) 0 ->
       interp_lin NumR (t_pressure tb) (ums tb p_i) p_i = 1).
Proof.
  intros tb p_i a Ha Hn Hl Hinc Hpos Hr. split; [|split].
  - eexists. split; [eapply fp_init_user; eauto|reflexivity].
  - now apply user_m_i_at_least_one.
  - intros j Hj Hp. eapply user_m_i_one_at_nodes; eauto.
Qed.
Print Assumptions C09_user_alpha_m_i.

(* ... and since the repair of the scaling (the factor is the reciprocal of the pseudopressure AT p_i, no longer an interpolated
   reciprocal) the reported m_i is exactly 1 for EVERY initial pressure inside the table - which is also what C15 asks of the
   multiphase wrapper built on this branch ("1 at initial pressure") *)
Theorem C09_user_alpha_m_i_is_one :
  forall (tb : table (T := R)) p_i a, t_alpha tb = Some a ->
    (2 <= length (t_pressure tb))%nat -> length (t_pseudopressure tb) = length (t_pressure tb) ->
    incr (t_pressure tb) -> all_pos (t_pseudopressure tb) ->
    hd 0 (t_pressure tb) <= p_i <= last (t_pressure tb) 0 ->
    exists fp, fp_init NumR tb p_i = Some fp /\ fp_m_i fp = 1.
Proof.
  intros tb p_i a Ha Hn Hl Hinc Hpos Hr. eexists. split; [eapply fp_init_user; eauto|].
  cbn [fp_m_i]. eapply user_m_i_is_one; eauto.
Qed.
Print Assumptions C09_user_alpha_m_i_is_one.

Theorem C09_rescale_maps_fracface_to_0_and_initial_to_1 :
  forall p pp p_frac p_i, (2 <= length p)%nat -> length pp = length p -> incr p ->
    hd 0 p <= p_frac <= last p 0 -> hd 0 p <= p_i <= last p 0 ->
    interp_lin NumR p pp p_i <> interp_lin NumR p pp p_frac ->
    rescale_pseudopressure NumR p pp p_frac p_i = Some (rescaled p pp p_frac p_i) /\
    interp_lin NumR p (rescaled p pp p_frac p_i) p_frac = 0 /\
    interp_lin NumR p (rescaled p pp p_frac p_i) p_i = 1.
Proof.
  intros. split; [now apply rescale_model_value|now apply rescale_maps_fracface_to_0_and_initial_to_1].
Qed.
Print Assumptions C09_rescale_maps_fracface_to_0_and_initial_to_1.

Example C09_hypotheses_inhabited : incr [100; 200; 400] /\ all_pos [2; 3; 5].
Proof. split; [simpl; lra|]. intros x [<-|[<-|[<-|[]]]]; lra. Qed.
