(* C17 / C02 / C04 for USER SUBCLASSES that override the documented hook `alpha_scaled`:
   the model of what such a subclass must compute (Lib/ReservoirUser.v for the ideal class;
   Reservoir.simulate_single takes the law as a parameter already) and its ties to the stock model. *)
From Coq Require Import Reals List Lra Lia Arith Bool.
From BBLib Require Import NumSig Tridiag Interp Reservoir ReservoirUser ShiftThms.
Import ListNotations.
Open Scope R_scope.

(* with the stock law (ones) the user-law model IS the model all ideal-reservoir theorems are about *)
Theorem C02_user_law_one_is_the_stock_ideal_model : forall nx nxT times,
  idu_simulate NumR (fun _ => 1) nx nxT times = id_simulate NumR nx nxT times.
Proof. intros. exact (ideal_user_one NumR nx nxT times). Qed.
Print Assumptions C02_user_law_one_is_the_stock_ideal_model.

Lemma run_ideal_u_shift (alpha_s : R -> R) dx2 c : forall times prev,
  run_ideal_u NumR alpha_s dx2 (map (Rplus c) times) prev = run_ideal_u NumR alpha_s dx2 times prev.
Proof.
  induction times as [|t0 tt IH]; intros prev; [reflexivity|].
  destruct tt as [|t1 tt']; [reflexivity|].
  change (map (Rplus c) (t0 :: t1 :: tt')) with ((c + t0) :: map (Rplus c) (t1 :: tt')).
  change (map (Rplus c) (t1 :: tt')) with ((c + t1) :: map (Rplus c) tt') at 1.
  cbn [run_ideal_u]. simpl nsub; simpl ndiv.
  replace (c + t1 - (c + t0)) with (t1 - t0) by ring.
  f_equal. change ((c + t1) :: map (Rplus c) tt') with (map (Rplus c) (t1 :: tt')). apply IH.
Qed.

(* whatever the law, only time INCREMENTS enter: shifting the origin changes no stored level *)
Theorem C17_user_law_ideal_shift_invariant : forall (alpha_s : R -> R) nx nxT c times,
  idu_simulate NumR alpha_s nx nxT (map (Rplus c) times) = idu_simulate NumR alpha_s nx nxT times.
Proof.
  intros alpha_s nx nxT c times. unfold idu_simulate, simulate_ideal_u.
  destruct times as [|t0 tt]; [reflexivity|].
  rewrite run_ideal_u_shift. reflexivity.
Qed.
Print Assumptions C17_user_law_ideal_shift_invariant.

Theorem C17_user_law_single_shift_invariant : forall (alpha_s : R -> R) m_i nx dx2 c times mf,
  simulate_single NumR alpha_s m_i nx dx2 (map (Rplus c) times) mf = simulate_single NumR alpha_s m_i nx dx2 times mf.
Proof. intros. apply simulate_single_shift. Qed.
Print Assumptions C17_user_law_single_shift_invariant.

(* every stored level of the user-law ideal run is the solution of ITS step system: matrix from the law at the previous level *)
Theorem C04_user_law_step_consults_the_law_at_the_previous_level : forall (alpha_s : R -> R) mesh prev,
  ideal_next_u NumR alpha_s mesh prev = thomas NumR (rows_of NumR (map (fun v => mesh * alpha_s v) prev)) prev.
Proof. reflexivity. Qed.
Print Assumptions C04_user_law_step_consults_the_law_at_the_previous_level.

(* a law that is evaluated once, at the initial level, is a different scheme: non-vacuity of the distinction *)
Example hoisted_law_differs :
  exists alpha_s mesh prev, map (fun v => mesh * alpha_s v) prev <> map (fun _ => mesh * alpha_s 1) prev.
Proof.
  exists (fun m => 1/4 + 3/4 * m), 1, [1/2]. cbn. intros H. injection H as H. lra.
Qed.

(* tie 1: the regenerated loop body of IdealReservoir.simulate with `self.alpha_scaled` left abstract builds, at every step,
   the step system of the user-law model - matrix from the law AT THE PREVIOUS LEVEL, right-hand side the previous level *)
From BBRun Require Import Gen_reservoir.
From BBRun Require C01_matrix.
Theorem C04_ideal_loop_body_with_a_user_law_builds_the_user_law_step_system :
  forall (alpha_s : R -> R) dx2 t0 t1 prev, prev <> [] ->
    let mesh := (t1 - t0) / dx2 in
    let k := map (fun v => mesh * alpha_s v) prev in
    ideal_step_system_u alpha_s dx2 t0 t1 prev
    = ((diag_low (rows_of NumR k), diag_main (rows_of NumR k), diag_up (rows_of NumR k)), prev).
Proof.
  intros alpha_s dx2 t0 t1 prev Hne mesh k.
  unfold ideal_step_system_u; cbv zeta. fold mesh.
  assert (Ek : PyPrelude.smul mesh (map alpha_s prev) = k) by (unfold k, PyPrelude.smul; now rewrite map_map).
  rewrite Ek. f_equal. apply C01_matrix.build_matrix_is_rows_of. unfold k. destruct prev; [contradiction|discriminate].
Qed.
Print Assumptions C04_ideal_loop_body_with_a_user_law_builds_the_user_law_step_system.
