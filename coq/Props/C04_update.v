(* C04: each stored level is the implicit backward-Euler update of the previous one; a solve
   that did not converge is never accepted.  Model: Lib/SolverOracle.v (solver as an oracle
   under scipy's contract) and Lib/Reservoir.v (the step's matrix and right-hand side, the same
   definitions the float instance evaluates on the implementation's stored levels). *)
From Coq Require Import Reals List Lra Lia.
From BBLib Require Import NumSig Tridiag Reservoir ReservoirThms SolverOracle.
Import ListNotations.
Open Scope R_scope.

(* nothing is assumed about the iterative solver: what is stored passed the code's own true-residual test
   (check = _is_solved) or is the direct solution *)
Theorem C04_stored_steps_are_checked_or_direct :
  forall (solve : list (R * R * R) -> list R -> list R * nat) (direct : list (R * R * R) -> list R -> list R)
         (check : list (R * R * R) -> list R -> list R -> bool) alpha_s m_i dx2 times mf prev,
    steps_ok alpha_s m_i dx2 (checked_or_direct direct check) times mf prev (run_o solve direct check alpha_s m_i dx2 times mf prev).
Proof. intros. apply stored_steps_are_checked_or_direct. Qed.
Print Assumptions C04_stored_steps_are_checked_or_direct.

Theorem C04_stored_steps_have_small_residual :
  forall (solve : list (R * R * R) -> list R -> list R * nat) (direct : list (R * R * R) -> list R -> list R)
         (check : list (R * R * R) -> list R -> list R -> bool)
         (within_tol : list (R * R * R) -> list R -> list R -> Prop),
    (forall rows b x, check rows b x = true -> within_tol rows b x) ->
    (forall rows b, within_tol rows b (direct rows b)) ->
  forall alpha_s m_i dx2 times mf prev,
    steps_ok alpha_s m_i dx2 within_tol times mf prev (run_o solve direct check alpha_s m_i dx2 times mf prev).
Proof. intros. now apply stored_steps_have_small_residual. Qed.
Print Assumptions C04_stored_steps_have_small_residual.

Theorem C04_nonconverged_iterate_never_stored :
  forall (solve : list (R * R * R) -> list R -> list R * nat) (direct : list (R * R * R) -> list R -> list R) check rows b x k,
    solve rows b = (x, S k) -> accept solve direct check rows b = direct rows b.
Proof. exact nonconverged_iterate_never_stored. Qed.
Print Assumptions C04_nonconverged_iterate_never_stored.

(* "converged" according to the solver's recursively updated residual, but not according to the true one *)
Theorem C04_drifted_iterate_never_stored :
  forall (solve : list (R * R * R) -> list R -> list R * nat) (direct : list (R * R * R) -> list R -> list R) check rows b x,
    solve rows b = (x, O) -> check rows b x = false -> accept solve direct check rows b = direct rows b.
Proof. exact drifted_iterate_never_stored. Qed.
Print Assumptions C04_drifted_iterate_never_stored.

(* with an exact solver the accepted level *is* the model's Thomas solution (uniqueness) *)
Theorem C04_exact_update_is_unique :
  forall n K B U V g, (1 <= n)%nat -> (forall j, (1 <= j <= n)%nat -> 0 <= K j) ->
    MinPrinciple.Sys n K B U g -> MinPrinciple.Sys n K B V g ->
    forall j, (j <= S n)%nat -> U j = V j.
Proof. exact MinPrinciple.step_unique. Qed.
Print Assumptions C04_exact_update_is_unique.

(* the model's own step satisfies the update equation exactly *)
Theorem C04_model_step_is_update :
  forall (alpha_s : R -> R), (forall v, 0 <= alpha_s v) -> forall m_i m_f mesh prev, 0 <= mesh ->
    SingleStep alpha_s m_i m_f mesh prev (single_next NumR alpha_s m_i m_f mesh prev).
Proof. exact single_next_is_step. Qed.
Print Assumptions C04_model_step_is_update.

Theorem C04_model_ideal_step_is_update : forall mesh prev, 0 <= mesh ->
  IdealStep mesh prev (ideal_next NumR mesh prev).
Proof. exact ideal_next_is_step. Qed.
Print Assumptions C04_model_ideal_step_is_update.
