(* C18: the pressure-history fit.  Model: Lib/FitPressure.v -- the objective is DEFINED from the
   same FlowProperties / simulate / recovery model the other properties are about (the float
   instance is run against forecast_pressure._obj_function), the data preparation is a list
   filter / cumulative sum.  lmfit keeping parameters inside [min, max] is a trusted contract,
   validated on every run. *)
From Coq Require Import Reals List Lra Lia.
From BBLib Require Import NumSig Tridiag Interp Reservoir FitPressure.
Import ListNotations.
Open Scope R_scope.

Theorem C18_objective_is_M_times_library_recovery_minus_production :
  forall (tb : table (T := R)) eighty days production pf tau M p_init fp field,
    fp_init NumR tb p_init = Some fp ->
    sp_simulate NumR fp 80 eighty (map (fun d => d / tau) days) pf = Some field ->
    objective NumR tb eighty days production pf tau M p_init
    = Some (map (fun p => M * fst p - snd p)
                (combine (sp_recovery NumR fp eighty false (map (fun d => d / tau) days) field) production)).
Proof. intros tb eighty days production pf tau M p_init fp field Hfp Hsim. unfold objective. rewrite Hfp. simpl ndiv. now rewrite Hsim. Qed.
Print Assumptions C18_objective_is_M_times_library_recovery_minus_production.

Theorem C18_objective_zero_at_generating_parameters :
  forall (tb : table (T := R)) eighty days pf tau M p_init fp field,
    fp_init NumR tb p_init = Some fp ->
    sp_simulate NumR fp 80 eighty (map (fun d => d / tau) days) pf = Some field ->
    let rf := sp_recovery NumR fp eighty false (map (fun d => d / tau) days) field in
    objective NumR tb eighty days (map (fun r => M * r) rf) pf tau M p_init = Some (map (fun _ => 0) rf).
Proof. exact objective_zero_at_truth. Qed.
Print Assumptions C18_objective_zero_at_generating_parameters.

Theorem C18_rows_without_production_or_pressure_are_excluded :
  forall (rows : list (R * option R)) r,
    In r (filter_rows NumR rows) <-> In r rows /\ 0 < fst r /\ snd r <> None.
Proof. exact filter_rows_spec. Qed.
Print Assumptions C18_rows_without_production_or_pressure_are_excluded.

Theorem C18_cumulative_production_increases : forall (l : list R) acc, (forall x, In x l -> 0 < x) ->
  forall j, (j < length l)%nat -> acc < nth j (cumsum_from NumR acc l) 0.
Proof. exact cumsum_from_increasing. Qed.
Print Assumptions C18_cumulative_production_increases.
