(* C16: multiphase total compressibility is the (central, one-psi) pressure difference of the
   documented stored mass at fixed saturation; mobility is the documented sum; diffusivity is
   their quotient.  Model: flowproperties.py regenerated on every run; PVT / rel-perm tables
   are arbitrary functions. *)
From Coq Require Import Reals Lra.
From Coquelicot Require Import Coquelicot.
From BBLib Require Import PyPrelude Analysis Multiphase_spec.
From BBRun Require Import Gen_flowprops.
Open Scope R_scope.

Section C16.
  Variables rho_o rho_g rho_w : R.
  Variables Rv Rs mu_o mu_g mu_w Bo Bg Bw kro krg krw : R -> R.
  Let S := storage rho_o rho_g rho_w Rv Rs Bo Bg Bw.
  Let cp p So phi Sw := compressibility_combined_func p So phi Sw rho_o rho_g rho_w Rv Rs mu_o mu_g mu_w Bo Bg Bw.

  Theorem cp_is_central_difference p So phi Sw :
    cp p So phi Sw = S phi So Sw (p + 5 / 10) - S phi So Sw (p - 5 / 10).
  Proof. unfold cp, S, compressibility_combined_func, storage; cbv zeta. unfold Rdiv. ring. Qed.

  Theorem cp_zero_for_pressure_independent_tables p So phi Sw :
    (forall a b, Rv a = Rv b) -> (forall a b, Rs a = Rs b) -> (forall a b, Bo a = Bo b) ->
    (forall a b, Bg a = Bg b) -> (forall a b, Bw a = Bw b) -> cp p So phi Sw = 0.
  Proof.
    intros H1 H2 H3 H4 H5. rewrite cp_is_central_difference. unfold S, storage; cbv zeta.
    rewrite (H1 (p + 5 / 10) (p - 5 / 10)), (H2 (p + 5 / 10) (p - 5 / 10)), (H3 (p + 5 / 10) (p - 5 / 10)),
            (H4 (p + 5 / 10) (p - 5 / 10)), (H5 (p + 5 / 10) (p - 5 / 10)). ring.
  Qed.

  Theorem cp_proportional_to_porosity p So phi Sw : cp p So phi Sw = phi * cp p So 1 Sw.
  Proof. rewrite !cp_is_central_difference. unfold S, storage; cbv zeta. ring. Qed.

  (* exact pressure derivative wherever the storage function is affine across the step *)
  Theorem cp_is_derivative_for_affine_storage p So phi Sw a b :
    (forall q, p - 5 / 10 <= q <= p + 5 / 10 -> S phi So Sw q = a * q + b) ->
    cp p So phi Sw = a /\ (forall q, p - 5 / 10 < q < p + 5 / 10 -> is_derive (S phi So Sw) q a).
  Proof.
    intros Haff. split.
    - rewrite cp_is_central_difference, !Haff by lra. field.
    - intros q Hq. apply (is_derive_ext_loc (fun x => a * x + b)).
      + apply (locally_between (p - 5 / 10) (p + 5 / 10)); [exact Hq|].
        intros y Hy. symmetry. apply Haff. lra.
      + auto_derive; [exact I|ring].
  Qed.

  Theorem lambda_is_documented_mobility p So :
    lambda_combined_func p So rho_o rho_g rho_w Rv Rs mu_o mu_g mu_w Bo Bg Bw kro krg krw
    = mobility rho_o rho_g rho_w Rv Rs mu_o mu_g mu_w Bo Bg Bw kro krg krw p So.
  Proof. unfold lambda_combined_func, mobility; cbv zeta. unfold Rdiv. ring. Qed.

  Theorem alpha_is_mobility_over_compressibility p So phi Sw :
    alpha_multiphase p So phi Sw rho_o rho_g rho_w Rv Rs mu_o mu_g mu_w Bo Bg Bw kro krg krw
    = mobility rho_o rho_g rho_w Rv Rs mu_o mu_g mu_w Bo Bg Bw kro krg krw p So
      / (S phi So Sw (p + 5 / 10) - S phi So Sw (p - 5 / 10)).
  Proof.
    unfold alpha_multiphase; cbv zeta. rewrite lambda_is_documented_mobility.
    fold (cp p So phi Sw). now rewrite cp_is_central_difference.
  Qed.
End C16.

Theorem C16_compressibility_is_central_difference_of_documented_storage :
  forall rho_o rho_g rho_w Rv Rs mu_o mu_g mu_w Bo Bg Bw p So phi Sw,
    compressibility_combined_func p So phi Sw rho_o rho_g rho_w Rv Rs mu_o mu_g mu_w Bo Bg Bw
    = storage rho_o rho_g rho_w Rv Rs Bo Bg Bw phi So Sw (p + 5 / 10)
      - storage rho_o rho_g rho_w Rv Rs Bo Bg Bw phi So Sw (p - 5 / 10).
Proof. intros. apply cp_is_central_difference. Qed.
Print Assumptions C16_compressibility_is_central_difference_of_documented_storage.

Theorem C16_compressibility_zero_for_pressure_independent_tables :
  forall rho_o rho_g rho_w Rv Rs mu_o mu_g mu_w Bo Bg Bw p So phi Sw,
    (forall a b, Rv a = Rv b) -> (forall a b, Rs a = Rs b) -> (forall a b, Bo a = Bo b) ->
    (forall a b, Bg a = Bg b) -> (forall a b, Bw a = Bw b) ->
    compressibility_combined_func p So phi Sw rho_o rho_g rho_w Rv Rs mu_o mu_g mu_w Bo Bg Bw = 0.
Proof. intros. now apply cp_zero_for_pressure_independent_tables. Qed.
Print Assumptions C16_compressibility_zero_for_pressure_independent_tables.

Theorem C16_compressibility_proportional_to_porosity :
  forall rho_o rho_g rho_w Rv Rs mu_o mu_g mu_w Bo Bg Bw p So phi Sw,
    compressibility_combined_func p So phi Sw rho_o rho_g rho_w Rv Rs mu_o mu_g mu_w Bo Bg Bw
    = phi * compressibility_combined_func p So 1 Sw rho_o rho_g rho_w Rv Rs mu_o mu_g mu_w Bo Bg Bw.
Proof. intros. apply cp_proportional_to_porosity. Qed.
Print Assumptions C16_compressibility_proportional_to_porosity.

Theorem C16_compressibility_is_derivative_for_affine_storage :
  forall rho_o rho_g rho_w Rv Rs mu_o mu_g mu_w Bo Bg Bw p So phi Sw a b,
    (forall q, p - 5 / 10 <= q <= p + 5 / 10 -> storage rho_o rho_g rho_w Rv Rs Bo Bg Bw phi So Sw q = a * q + b) ->
    compressibility_combined_func p So phi Sw rho_o rho_g rho_w Rv Rs mu_o mu_g mu_w Bo Bg Bw = a /\
    (forall q, p - 5 / 10 < q < p + 5 / 10 -> is_derive (storage rho_o rho_g rho_w Rv Rs Bo Bg Bw phi So Sw) q a).
Proof. intros rho_o rho_g rho_w Rv Rs mu_o mu_g mu_w Bo Bg Bw p So phi Sw a b H.
  exact (cp_is_derivative_for_affine_storage rho_o rho_g rho_w Rv Rs mu_o mu_g mu_w Bo Bg Bw p So phi Sw a b H). Qed.
Print Assumptions C16_compressibility_is_derivative_for_affine_storage.

Theorem C16_mobility_is_documented_sum :
  forall rho_o rho_g rho_w Rv Rs mu_o mu_g mu_w Bo Bg Bw kro krg krw p So,
    lambda_combined_func p So rho_o rho_g rho_w Rv Rs mu_o mu_g mu_w Bo Bg Bw kro krg krw
    = mobility rho_o rho_g rho_w Rv Rs mu_o mu_g mu_w Bo Bg Bw kro krg krw p So.
Proof. intros. apply lambda_is_documented_mobility. Qed.
Print Assumptions C16_mobility_is_documented_sum.

Theorem C16_diffusivity_is_mobility_over_compressibility :
  forall rho_o rho_g rho_w Rv Rs mu_o mu_g mu_w Bo Bg Bw kro krg krw p So phi Sw,
    alpha_multiphase p So phi Sw rho_o rho_g rho_w Rv Rs mu_o mu_g mu_w Bo Bg Bw kro krg krw
    = mobility rho_o rho_g rho_w Rv Rs mu_o mu_g mu_w Bo Bg Bw kro krg krw p So
      / (storage rho_o rho_g rho_w Rv Rs Bo Bg Bw phi So Sw (p + 5 / 10)
         - storage rho_o rho_g rho_w Rv Rs Bo Bg Bw phi So Sw (p - 5 / 10)).
Proof. intros. apply alpha_is_mobility_over_compressibility. Qed.
Print Assumptions C16_diffusivity_is_mobility_over_compressibility.
