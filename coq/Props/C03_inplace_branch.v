(* C03, tie 1 for the in-place (density=True) branch of recovery_factor regenerated from reservoir.py.  The branch is cut at the
   row sum: `recovery_inplace_total` is what the source does to one stored level (extrapolating lookup of the density column over
   the scaled-pseudopressure column, then the sum over the nodes), `recovery_inplace_cum` is what it does with the totals
   (1 - total/total[0], times the formation-volume scale).  Together they are the model's recovery_density. *)
From Coq Require Import Reals List Lra.
From BBLib Require Import PyPrelude NumSig Tridiag Interp Reservoir.
From BBRun Require Import Gen_reservoir.
Import ListNotations.
Open Scope R_scope.

Lemma all_some_map_Some (f : R -> R) : forall l, PyPrelude.all_some (map (fun q => Some (f q)) l) = Some (map f l).
Proof. induction l as [|x l IH]; [reflexivity|]. cbn [map PyPrelude.all_some]. now rewrite IH. Qed.

Lemma fold_left_add_acc : forall l a, fold_left Rplus l a = a + fold_right Rplus 0 l.
Proof. induction l as [|x l IH]; intros a; cbn [fold_left fold_right]; [lra|]. rewrite IH. lra. Qed.

Lemma vsum_is_nsum_l l : vsum l = nsum_l NumR l.
Proof. unfold vsum, nsum_l. simpl. rewrite fold_left_add_acc. lra. Qed.

Definition level_total (ms dens prof : list R) : R :=
  nsum_l NumR (map (fun m => interp_lin NumR ms dens m) prof).

Theorem C03_inplace_total_is_model_total : forall ms dens prof,
  recovery_inplace_total ms dens prof = Some (level_total ms dens prof).
Proof.
  intros. unfold recovery_inplace_total, level_total.
  change (map (interp1d NumR Extrap ms dens) prof) with (map (fun q => Some (interp_lin NumR ms dens q)) prof).
  rewrite all_some_map_Some. cbn [obind]. cbv zeta. now rewrite vsum_is_nsum_l.
Qed.
Print Assumptions C03_inplace_total_is_model_total.

Theorem C03_inplace_branch_is_model_recovery_density : forall fp fvf field, field <> [] ->
  recovery_inplace_cum (map (level_total (fp_mscaled fp) (fp_density fp)) field) fvf
  = recovery_density NumR fp fvf field.
Proof.
  intros fp fvf field Hne. unfold recovery_inplace_cum, recovery_density; cbv zeta.
  fold (level_total (fp_mscaled fp) (fp_density fp)).
  change (map (fun prof => nsum_l NumR (map (fun m => interp_lin NumR (fp_mscaled fp) (fp_density fp) m) prof)) field)
    with (map (level_total (fp_mscaled fp) (fp_density fp)) field).
  destruct field as [|p0 rest]; [congruence|].
  cbn [map nth hd]. unfold muls, ssub, divs. cbn [map]. rewrite !map_map. simpl.
  f_equal; try (apply map_ext; intros; reflexivity).
Qed.
Print Assumptions C03_inplace_branch_is_model_recovery_density.

(* the whole branch, as the source sequences it: every level's lookup succeeds (the extrapolating lookup never raises) *)
Theorem C03_inplace_branch_total : forall fp fvf field, field <> [] ->
  exists totals, PyPrelude.all_some (map (recovery_inplace_total (fp_mscaled fp) (fp_density fp)) field) = Some totals
              /\ recovery_inplace_cum totals fvf = recovery_density NumR fp fvf field.
Proof.
  intros fp fvf field Hne. exists (map (level_total (fp_mscaled fp) (fp_density fp)) field). split.
  - clear Hne. induction field as [|p rest IH]; [reflexivity|]. cbn [map]. rewrite C03_inplace_total_is_model_total.
    cbn [PyPrelude.all_some]. now rewrite IH.
  - now apply C03_inplace_branch_is_model_recovery_density.
Qed.
Print Assumptions C03_inplace_branch_total.

(* the first entry is exactly zero whenever the initial total is non-zero, whatever the table *)
Theorem C03_inplace_starts_at_zero : forall totals fvf, hd 0 totals <> 0 -> hd 0 (recovery_inplace_cum totals fvf) = 0.
Proof.
  intros [|t0 rest] fvf H; [reflexivity|]. unfold recovery_inplace_cum, muls, ssub, divs. cbn [map nth hd] in *. field. exact H.
Qed.
Print Assumptions C03_inplace_starts_at_zero.
