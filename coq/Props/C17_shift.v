(* C17: invariance to time-origin shifts, equivalent schedule forms, rejected schedule lengths,
   recovery interpolator fill.  Model: Lib/Reservoir.v (R instance). *)
From Coq Require Import Reals List Lra Lia.
From BBLib Require Import NumSig Tridiag Interp Reservoir InterpThms ShiftThms.
Import ListNotations.
Open Scope R_scope.

Theorem C17_single_phase_shift_invariant : forall (alpha_s : R -> R) m_i nx dx2 c times mf,
  simulate_single NumR alpha_s m_i nx dx2 (map (Rplus c) times) mf
  = simulate_single NumR alpha_s m_i nx dx2 times mf.
Proof. exact simulate_single_shift. Qed.
Print Assumptions C17_single_phase_shift_invariant.

Theorem C17_ideal_shift_invariant : forall nx dx2 c times,
  simulate_ideal NumR nx dx2 (map (Rplus c) times) = simulate_ideal NumR nx dx2 times.
Proof. exact simulate_ideal_shift. Qed.
Print Assumptions C17_ideal_shift_invariant.

Theorem C17_recovery_shift_invariant : forall h_inv fvf c times field,
  recovery_flux NumR h_inv fvf (map (Rplus c) times) field = recovery_flux NumR h_inv fvf times field.
Proof. exact recovery_flux_shift. Qed.
Print Assumptions C17_recovery_shift_invariant.

Theorem C17_schedule_length_mismatch_rejected : forall (fp : flowprops) nx nxT times pf,
  length pf <> length times -> sp_simulate NumR fp nx nxT times pf = None.
Proof. exact schedule_length_mismatch_rejected. Qed.
Print Assumptions C17_schedule_length_mismatch_rejected.

Theorem C17_interpolator_at_simulated_times : forall times rec j,
  incr times -> length rec = length times -> (2 <= length times)%nat -> (j < length times)%nat ->
  rf_interp NumR times rec (nth j times 0) = nth j rec 0.
Proof. exact rf_interp_at_nodes. Qed.
Print Assumptions C17_interpolator_at_simulated_times.

Theorem C17_interpolator_outside : forall times rec t,
  (t < hd 0 times -> rf_interp NumR times rec t = 0) /\
  (hd 0 times <= last times 0 -> last times 0 < t -> rf_interp NumR times rec t = last rec 0).
Proof. exact rf_interp_outside. Qed.
Print Assumptions C17_interpolator_outside.

Example C17_hypotheses_inhabited : incr [0; 1/2; 2] /\ (2 <= length [0; 1/2; 2])%nat.
Proof. simpl. repeat split; try lra; lia. Qed.
