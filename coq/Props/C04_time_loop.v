(* C04 / C10 tie 1 for the loop AROUND the step.  Gen_reservoir's *_loop_indices are emitted from the header of the two time loops
   (`for i in range(len(time) - 1)`, no else, no early exit; fails closed otherwise).  Here: a loop that, for every regenerated index i in
   order, stores `field[i + 1] = step i field[i]` into a pre-allocated array whose row 0 is the initial profile, leaves exactly the field
   of the hand model (`init :: run_ideal ..` / `init :: run_single ..`) in the array - every row, whatever the array held before. *)
From Coq Require Import Reals List Lra Lia Arith.
From BBLib Require Import PyPrelude NumSig Tridiag Reservoir.
From BBRun Require Import Gen_reservoir.
Import ListNotations.
Open Scope R_scope.

Section ArrayLoop.
  Context {A : Type} (d : A).
  Fixpoint upd (k : nat) (v : A) (l : list A) : list A :=
    match l, k with
    | [], _ => []
    | _ :: t, O => v :: t
    | x :: t, S k' => x :: upd k' v t
    end.
  Lemma upd_length : forall l k v, length (upd k v l) = length l.
  Proof. induction l as [|x t IH]; intros [|k] v; cbn; auto. Qed.
  Lemma nth_upd_same : forall l k v, (k < length l)%nat -> nth k (upd k v l) d = v.
  Proof. induction l as [|x t IH]; intros [|k] v H; cbn in *; try lia; auto. apply IH. lia. Qed.
  Lemma nth_upd_other : forall l k j v, j <> k -> nth j (upd k v l) d = nth j l d.
  Proof. induction l as [|x t IH]; intros [|k] [|j] v H; cbn; auto; try lia. Qed.

  (* for i in idx: field[i + 1] = step i field[i] *)
  Definition array_loop (step : nat -> A -> A) (idx : list nat) (field : list A) : list A :=
    fold_left (fun f i => upd (S i) (step i (nth i f d)) f) idx field.
  (* level k of the recurrence *)
  Fixpoint chain (step : nat -> A -> A) (init : A) (k : nat) : A :=
    match k with O => init | S k' => step k' (chain step init k') end.

  Lemma array_loop_invariant step field : forall k, (k < length field)%nat ->
    let f := array_loop step (seq 0 k) field in
    length f = length field /\ (forall j, (j <= k)%nat -> nth j f d = chain step (nth 0 field d) j)
    /\ (forall j, (k < j)%nat -> nth j f d = nth j field d).
  Proof.
    induction k as [|k IH]; intros Hk.
    - cbn. split; [reflexivity|]. split; [|reflexivity]. intros j Hj. replace j with 0%nat by lia. reflexivity.
    - assert (Hk' : (k < length field)%nat) by lia. specialize (IH Hk'). cbv zeta in IH. destruct IH as [Hl [Hlow Hhigh]].
      cbv zeta. unfold array_loop in *. rewrite seq_S, fold_left_app. cbn [fold_left plus].
      set (f := fold_left _ (seq 0 k) field) in *.
      split; [now rewrite upd_length|]. split.
      + intros j Hj. destruct (Nat.eq_dec j (S k)) as [->|Hne].
        * rewrite nth_upd_same by lia. cbn [chain]. now rewrite Hlow by lia.
        * rewrite nth_upd_other by exact Hne. apply Hlow. lia.
      + intros j Hj. rewrite nth_upd_other by lia. apply Hhigh. lia.
  Qed.

  Lemma chain_ext step step' init : (forall i x, step i x = step' i x) -> forall k, chain step init k = chain step' init k.
  Proof. intros E. induction k as [|k IH]; cbn; [reflexivity|]. now rewrite IH, E. Qed.
  Lemma chain_shift step init : forall k, chain step init (S k) = chain (fun i => step (S i)) (step 0%nat init) k.
  Proof. induction k as [|k IH]; [reflexivity|]. cbn [chain] in *. now rewrite IH. Qed.
End ArrayLoop.

(* the hand model's structural recursion over the time grid is that recurrence *)
Lemma run_ideal_cons dx2 t0 t1 tt prev :
  run_ideal NumR dx2 (t0 :: t1 :: tt) prev
  = ideal_next NumR ((t1 - t0) / dx2) prev :: run_ideal NumR dx2 (t1 :: tt) (ideal_next NumR ((t1 - t0) / dx2) prev).
Proof. reflexivity. Qed.
Lemma run_single_cons alpha_s m_i dx2 t0 t1 tt f0 ft prev :
  run_single NumR alpha_s m_i dx2 (t0 :: t1 :: tt) (f0 :: ft) prev
  = single_next NumR alpha_s m_i f0 ((t1 - t0) / dx2) prev
    :: run_single NumR alpha_s m_i dx2 (t1 :: tt) ft (single_next NumR alpha_s m_i f0 ((t1 - t0) / dx2) prev).
Proof. reflexivity. Qed.
Lemma nth_S_cons {A} k (a : A) l d : nth (S k) (a :: l) d = nth k l d.
Proof. reflexivity. Qed.

Lemma run_ideal_is_chain dx2 : forall times init k, (k < length times)%nat ->
  nth k (init :: run_ideal NumR dx2 times init) []
  = chain (fun i prev => ideal_next NumR ((nth (S i) times 0 - nth i times 0) / dx2) prev) init k.
Proof.
  induction times as [|t0 tt IH]; intros init k Hk; [cbn in Hk; lia|].
  destruct k as [|k]; [reflexivity|].
  rewrite chain_shift. destruct tt as [|t1 tt']; [cbn in Hk; lia|].
  rewrite run_ideal_cons, nth_S_cons. cbn [length] in Hk.
  rewrite IH by (cbn [length]; lia). apply chain_ext. intros i x. reflexivity.
Qed.

Lemma run_single_is_chain alpha_s m_i dx2 : forall times mf init k, (k < length times)%nat -> (length times <= length mf)%nat ->
  nth k (init :: run_single NumR alpha_s m_i dx2 times mf init) []
  = chain (fun i prev => single_next NumR alpha_s m_i (nth i mf 0) ((nth (S i) times 0 - nth i times 0) / dx2) prev) init k.
Proof.
  induction times as [|t0 tt IH]; intros mf init k Hk Hm; [cbn in Hk; lia|].
  destruct k as [|k]; [reflexivity|].
  rewrite chain_shift. destruct tt as [|t1 tt']; [cbn in Hk; lia|].
  destruct mf as [|f0 ft]; [cbn in Hm; lia|].
  rewrite run_single_cons, nth_S_cons. cbn [length] in Hk, Hm.
  rewrite IH by (cbn [length]; lia). apply chain_ext. intros i x. reflexivity.
Qed.

Lemma run_ideal_length dx2 : forall times init, length (run_ideal NumR dx2 times init) = (length times - 1)%nat.
Proof.
  induction times as [|t0 tt IH]; intros init; [reflexivity|]. destruct tt as [|t1 tt']; [reflexivity|].
  rewrite run_ideal_cons. cbn [length]. rewrite IH. cbn [length]. lia.
Qed.
Lemma run_single_length alpha_s m_i dx2 : forall times mf init, (length times <= length mf)%nat ->
  length (run_single NumR alpha_s m_i dx2 times mf init) = (length times - 1)%nat.
Proof.
  induction times as [|t0 tt IH]; intros mf init Hm; [reflexivity|]. destruct tt as [|t1 tt']; [destruct mf; reflexivity|].
  destruct mf as [|f0 ft]; [cbn in Hm; lia|].
  rewrite run_single_cons. cbn [length]. cbn [length] in Hm. rewrite IH by (cbn [length]; lia). cbn [length]. lia.
Qed.

Lemma same_rows (a b : list (list R)) : length a = length b -> (forall j, (j < length a)%nat -> nth j a [] = nth j b []) -> a = b.
Proof.
  revert b. induction a as [|x a IH]; intros [|y b] Hl H; cbn in Hl; try lia; [reflexivity|].
  f_equal; [exact (H 0%nat ltac:(cbn; lia))|]. apply IH; [lia|]. intros j Hj. exact (H (S j) ltac:(cbn; lia)).
Qed.

(* IdealReservoir.simulate: whatever the pre-allocated array holds in rows 1.., after the loop over the REGENERATED indices it is the model's field *)
Theorem C04_ideal_time_loop_fills_the_array_with_the_model_field : forall dx2 times init (field : list (list R)),
  times <> [] -> length field = length times -> nth 0 field [] = init ->
  array_loop [] (fun i prev => ideal_next NumR ((nth (S i) times 0 - nth i times 0) / dx2) prev)
             (ideal_loop_indices (length times)) field
  = init :: run_ideal NumR dx2 times init.
Proof.
  intros dx2 times init field Hne Hl H0. unfold ideal_loop_indices.
  assert (Hpos : (0 < length times)%nat) by (destruct times; [contradiction|cbn; lia]).
  destruct (array_loop_invariant [] (fun i prev => ideal_next NumR ((nth (S i) times 0 - nth i times 0) / dx2) prev) field
              (length times - 1)) as [Hlen [Hlow _]]; [lia|].
  apply same_rows.
  - rewrite Hlen, Hl. cbn [length]. rewrite run_ideal_length. lia.
  - intros j Hj. rewrite Hlen, Hl in Hj. rewrite Hlow by lia. rewrite H0. symmetry. apply run_ideal_is_chain. lia.
Qed.
Print Assumptions C04_ideal_time_loop_fills_the_array_with_the_model_field.

Theorem C04_single_phase_time_loop_fills_the_array_with_the_model_field : forall alpha_s m_i dx2 times mf init (field : list (list R)),
  times <> [] -> length mf = length times -> length field = length times -> nth 0 field [] = init ->
  array_loop [] (fun i prev => single_next NumR alpha_s m_i (nth i mf 0) ((nth (S i) times 0 - nth i times 0) / dx2) prev)
             (single_loop_indices (length times)) field
  = init :: run_single NumR alpha_s m_i dx2 times mf init.
Proof.
  intros alpha_s m_i dx2 times mf init field Hne Hm Hl H0. unfold single_loop_indices.
  assert (Hpos : (0 < length times)%nat) by (destruct times; [contradiction|cbn; lia]).
  destruct (array_loop_invariant [] (fun i prev => single_next NumR alpha_s m_i (nth i mf 0) ((nth (S i) times 0 - nth i times 0) / dx2) prev) field
              (length times - 1)) as [Hlen [Hlow _]]; [lia|].
  apply same_rows.
  - rewrite Hlen, Hl. cbn [length]. rewrite run_single_length by lia. lia.
  - intros j Hj. rewrite Hlen, Hl in Hj. rewrite Hlow by lia. rewrite H0. symmetry. apply run_single_is_chain; lia.
Qed.
Print Assumptions C04_single_phase_time_loop_fills_the_array_with_the_model_field.

(* every row is written exactly once, each from the row before it, first to last: the visited indices are 0 .. nt-2, no repeats *)
Theorem C04_time_loop_visits_each_step_once : forall nt,
  single_loop_indices nt = seq 0 (nt - 1) /\ ideal_loop_indices nt = seq 0 (nt - 1) /\ NoDup (single_loop_indices nt) /\
  forall i, In i (single_loop_indices nt) <-> (S i < nt)%nat.
Proof.
  intros nt. repeat split; try apply seq_NoDup.
  - intros H. apply in_seq in H. lia.
  - intros H. apply in_seq. lia.
Qed.
Print Assumptions C04_time_loop_visits_each_step_once.

Example C04_time_loop_non_vacuous :
  length (array_loop [] (fun i prev => ideal_next NumR ((nth (S i) [0; 1; 3] 0 - nth i [0; 1; 3] 0) / 1) prev)
                     (ideal_loop_indices 3) [[1; 1]; []; []]) = 3%nat.
Proof. reflexivity. Qed.
