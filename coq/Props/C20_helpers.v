(* C20: the three reservoir helpers of plotting.py.  Gen_plotting's pp_* / rf_line / rate_line are emitted from the helpers'
   data-path statements (matched one for one on every run; styling statements are free).  Here they are proved to be the hand
   model Lib/Plot.v that the correspondence check runs against matplotlib's Line2D data - so the hand model is tied to the source
   from both sides - and to have the shape the property states. *)
From Coq Require Import Reals List Lra Lia Arith.
From BBLib Require Import PyPrelude NumSig Plot.
From BBRun Require Import Gen_plotting.
Import ListNotations.
Open Scope R_scope.

Lemma enumerate_filter_is_select_from {A} every : forall (l : list A) i,
  map snd (filter (fun ip => Nat.eqb (fst ip mod every) 0) (combine (seq i (length l)) l)) = select_from i every l.
Proof.
  induction l as [|x t IH]; intros i; [reflexivity|].
  cbn [length seq combine filter fst select_from].
  destruct (Nat.eqb (i mod every) 0); cbn [map snd]; now rewrite IH.
Qed.

(* `for i, p in enumerate(field): if i % every == 0` draws exactly the model's selection ... *)
Theorem C20_helper_draws_the_models_selection : forall every field, pp_selected every field = select_every every field.
Proof. intros. apply enumerate_filter_is_select_from. Qed.
Print Assumptions C20_helper_draws_the_models_selection.

(* ... that is: profiles 0, k, 2k, ... in order, nothing else *)
Theorem C20_helper_draws_every_kth_profile : forall every (field : list (list R)),
  pp_selected every field = map (fun j => nth j field []) (filter (fun j => Nat.eqb (j mod every) 0) (seq 0 (length field))).
Proof. intros. rewrite C20_helper_draws_the_models_selection. apply select_every_spec. Qed.
Print Assumptions C20_helper_draws_every_kth_profile.

Theorem C20_helper_rescale_is_model_rescale : forall pinit p, pp_pscale pinit p = rescale_profile NumR pinit p.
Proof. reflexivity. Qed.
Print Assumptions C20_helper_rescale_is_model_rescale.

Theorem C20_helper_positions_are_model_positions : forall nx,
  pp_x nx = node_positions NumR (INR nx) (map INR (seq 0 nx)).
Proof. intros. unfold pp_x, node_positions. rewrite map_map. reflexivity. Qed.
Print Assumptions C20_helper_positions_are_model_positions.

Lemma nth_map_seq (f : nat -> R) n j : (j < n)%nat -> nth j (map f (seq 0 n)) 0 = f j.
Proof.
  intros Hj. rewrite (nth_indep _ 0 (f 0%nat)) by (rewrite map_length, seq_length; lia).
  rewrite map_nth, seq_nth by lia. reflexivity.
Qed.

(* node positions: nx of them, from 1/nx at the node next to the fracture to exactly 1, equally spaced *)
Theorem C20_node_positions_run_from_first_node_to_one : forall nx, (1 < nx)%nat ->
  length (pp_x nx) = nx /\ nth 0 (pp_x nx) 0 = 1 / INR nx /\ nth (nx - 1) (pp_x nx) 0 = 1 /\
  forall j, (j + 1 < nx)%nat -> nth (j + 1) (pp_x nx) 0 - nth j (pp_x nx) 0 = 1 / INR nx.
Proof.
  intros nx Hnx. assert (Hn : 2 <= INR nx) by (apply (le_INR 2); lia).
  unfold pp_x. rewrite map_length, seq_length. repeat split.
  - rewrite nth_map_seq by lia. simpl INR. field. lra.
  - rewrite nth_map_seq by lia. rewrite minus_INR by lia. simpl INR. field. split; lra.
  - intros j Hj. rewrite !nth_map_seq by lia. rewrite plus_INR. simpl INR. field. split; lra.
Qed.
Print Assumptions C20_node_positions_run_from_first_node_to_one.

(* the whole helper: one line per selected profile, all against the same node positions, the profile itself or the model's rescaling of
   it with the initial value read at the outer node of the first stored profile *)
Theorem C20_pseudopressure_lines_are_the_model : forall nx every rescale field,
  pp_lines nx every rescale field
  = map (fun p => (node_positions NumR (INR nx) (map INR (seq 0 nx)),
                   if rescale then rescale_profile NumR (last (hd [] field) 0) p else p)) (select_every every field).
Proof.
  intros. unfold pp_lines. rewrite C20_helper_draws_the_models_selection, C20_helper_positions_are_model_positions. reflexivity.
Qed.
Print Assumptions C20_pseudopressure_lines_are_the_model.

Theorem C20_number_of_lines : forall nx every rescale (field : list (list R)),
  length (pp_lines nx every rescale field) = length (filter (fun j => Nat.eqb (j mod every) 0) (seq 0 (length field))).
Proof. intros. unfold pp_lines. rewrite map_length, C20_helper_draws_every_kth_profile, map_length. reflexivity. Qed.
Print Assumptions C20_number_of_lines.

(* unrescaled: the y-data of every line IS a stored profile (no arithmetic touches it) *)
Theorem C20_unrescaled_lines_carry_stored_profiles : forall nx every field xy,
  In xy (pp_lines nx every false field) -> In (snd xy) field /\ fst xy = pp_x nx.
Proof.
  intros nx every field [x y] H. unfold pp_lines in H. apply in_map_iff in H. destruct H as [p [E Hp]].
  inversion E; subst. cbn [fst snd]. split; [|reflexivity].
  unfold pp_selected in Hp. apply in_map_iff in Hp. destruct Hp as [[i q] [Eq Hq]]. cbn [snd] in Eq. subst q.
  apply filter_In in Hq. destruct Hq as [Hq _]. now apply in_combine_r in Hq.
Qed.
Print Assumptions C20_unrescaled_lines_carry_stored_profiles.

(* rescaled: every line starts at 0 at the fracture and is 1 wherever the profile still has its initial value *)
Theorem C20_rescaled_lines_run_from_0_to_1 : forall nx every field xy,
  In xy (pp_lines nx every true field) -> exists p, In p field /\ snd xy = pp_pscale (pp_pinit field) p /\
  (p <> [] -> pp_pinit field <> hd 0 p ->
     nth 0 (snd xy) 0 = 0 /\ forall j, (j < length p)%nat -> nth j p 0 = pp_pinit field -> nth j (snd xy) 0 = 1).
Proof.
  intros nx every field [x y] H. unfold pp_lines in H. apply in_map_iff in H. destruct H as [p [E Hp]].
  inversion E; subst. cbn [snd]. exists p. split; [|split; [reflexivity|]].
  - unfold pp_selected in Hp. apply in_map_iff in Hp. destruct Hp as [[i q] [Eq Hq]]. cbn [snd] in Eq. subst q.
    apply filter_In in Hq. destruct Hq as [Hq _]. now apply in_combine_r in Hq.
  - intros Hne Hd. rewrite C20_helper_rescale_is_model_rescale. now apply rescale_endpoints.
Qed.
Print Assumptions C20_rescaled_lines_run_from_0_to_1.

(* recovery factor against scaled time: both arrays go to the line untouched *)
Theorem C20_recovery_line_carries_time_and_recovery : forall time rf, rf_line time rf = (time, rf).
Proof. reflexivity. Qed.

(* recovery rate: x-data is the time grid, y-data numpy's gradient of the cumulative curve with respect to THAT grid; with the model of
   np.gradient (tied to numpy by the correspondence) it is exact for every quadratic-in-time recovery in the interior *)
Theorem C20_rate_line_is_time_derivative : forall time cum,
  rate_line (gradient NumR) time cum = (time, gradient NumR cum time).
Proof. reflexivity. Qed.

Example C20_helpers_non_vacuous :
  pp_selected 2 [[0; 1]; [0; 1/2]; [0; 1/4]] = [[0; 1]; [0; 1/4]] /\ length (pp_x 4) = 4%nat.
Proof. split; reflexivity. Qed.
