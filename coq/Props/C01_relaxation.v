(* C01, second half: under constant drawdown
   (a) the ideal reservoir's profile never rises in time at any node, for any non-decreasing time grid;
   (b) both reservoirs relax to the frac-face value whatever the time-step size: in the barrier norm
       phi j = j (2n+1-j) every step contracts the excess over the frac-face value by
       n(n+1) / (n(n+1) + 2 kappa), kappa = (dt/dx^2) * (lower bound of the scaled diffusivity), which is
       below 1 for every positive step and tends to 0 as the step grows.
   For the single-phase reservoir (a) is known finding K3: node 1 rises after a step-size increase. *)
From Coq Require Import Reals List Lra Lia.
From BBLib Require Import NumSig MinPrinciple Tridiag Reservoir ReservoirThms.
Import ListNotations.
Open Scope R_scope.

Theorem C01_ideal_never_rises_in_time : forall dx2 nx times,
  0 < dx2 -> (1 <= nx)%nat -> sorted_times times ->
  match simulate_ideal NumR nx dx2 times with
  | [] => True
  | first :: rest => decreasing_chain first rest
  end.
Proof. exact simulate_ideal_model_time_monotone. Qed.
Print Assumptions C01_ideal_never_rises_in_time.

(* one ideal step: superharmonic data give a lower, superharmonic level (the invariant behind (a)) *)
Theorem C01_ideal_step_never_rises : forall mesh prev new, 0 <= mesh -> (1 <= length prev)%nat ->
  IdealStep mesh prev new -> superharm prev -> pointwise_le new prev /\ superharm new.
Proof. exact ideal_step_time_monotone. Qed.
Print Assumptions C01_ideal_step_never_rises.

Theorem C01_single_phase_relaxes : forall (alpha_s : R -> R), (forall v, 0 <= alpha_s v) ->
  forall m_i dx2 nx times mf m_f amin, 0 < dx2 -> (1 <= nx)%nat ->
    sorted_times times -> length mf = length times -> (forall f, In f mf -> f = m_f) ->
    m_f <= m_i -> 0 <= amin -> (forall v, amin <= alpha_s v) ->
    match simulate_single NumR alpha_s m_i nx dx2 times mf with
    | [] => True
    | init :: rest => RunRelax m_f ((m_i - m_f) / (2 * INR nx)) amin dx2 nx times rest
    end.
Proof. exact simulate_single_model_relax. Qed.
Print Assumptions C01_single_phase_relaxes.

Theorem C01_ideal_relaxes : forall dx2 nx times, 0 < dx2 -> (1 <= nx)%nat -> sorted_times times ->
  match simulate_ideal NumR nx dx2 times with
  | [] => True
  | init :: rest => RunRelaxIdeal (1 / (2 * INR nx)) dx2 nx times rest
  end.
Proof. exact simulate_ideal_model_relax. Qed.
Print Assumptions C01_ideal_relaxes.

(* one step, any solution of the step system *)
Theorem C01_step_relaxes : forall (alpha_s : R -> R) m_i m_f mesh prev new,
  0 <= mesh -> (1 <= length prev)%nat -> SingleStep alpha_s m_i m_f mesh prev new ->
  forall amin C, 0 <= amin -> (forall v, amin <= alpha_s v) -> 0 <= C -> excess_le m_f C prev ->
  excess_le m_f (relax_factor (length prev) (mesh * amin) * C) new.
Proof. exact single_step_relax. Qed.
Print Assumptions C01_step_relaxes.

(* what the factor and the barrier norm mean pointwise *)
Theorem C01_relaxation_factor : forall n kap, (1 <= n)%nat -> 0 < kap ->
  0 < relax_factor n kap < 1 /\ relax_factor n kap <= phimax n / (2 * kap).
Proof.
  intros n kap Hn Hk. destruct (relax_factor_bounds n kap Hn (Rlt_le _ _ Hk)) as [H0 _].
  pose proof (relax_factor_lt_1 n kap Hn Hk). pose proof (phimax_pos n Hn) as Hp.
  split; [split; assumption|].
  unfold relax_factor, Rdiv. apply Rmult_le_compat_l; [lra|].
  apply Rinv_le_contravar; lra.
Qed.
Print Assumptions C01_relaxation_factor.

Theorem C01_excess_bound_is_pointwise : forall g C l, 0 <= C -> excess_le g C l ->
  forall j, (j < length l)%nat -> nth j l 0 - g <= C * phimax (length l).
Proof.
  intros g C l HC Hex j Hj. specialize (Hex j Hj).
  destruct (phi_bounds (length l) (S j) ltac:(lia)) as [_ Hp].
  apply Rle_trans with (C * phi (length l) (S j)); [exact Hex|]. now apply Rmult_le_compat_l.
Qed.
Print Assumptions C01_excess_bound_is_pointwise.

(* non-vacuity: the hypotheses of the run-level theorems are met by a concrete constant-drawdown run *)
Example C01_relaxation_hypotheses_inhabited :
  sorted_times [0; 1/10; 3/10] /\ (forall f, In f [1/4; 1/4; 1/4] -> f = 1/4) /\ 1/4 <= 1
  /\ (forall v, 1/2 <= (fun _ : R => 1/2) v) /\ superharm [1; 1; 1].
Proof.
  split; [simpl; lra|]. split; [intros f [<-|[<-|[<-|[]]]]; reflexivity|]. split; [lra|]. split; [intros; lra|].
  intros j Hj. simpl in Hj. destruct j as [|[|[|[|j]]]]; try lia; simpl; lra.
Qed.
