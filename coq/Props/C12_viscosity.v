(* C12 (viscosity clauses): over the input box of the property, Beggs-Robinson oil viscosity is
   positive, and below the bubble point it falls with pressure.  Model: oil.py regenerated on
   every run.  The live-oil viscosity is exp(lnV(ln mu_dead, R_s)); d lnV / d R_s < 0 is proved by
   interval bisection over R_s in [0, 2500] x ln(mu_dead) in [-1.47, 9], the range of ln(mu_dead)
   over 80 <= T <= 350, 12 <= API <= 55 by a second bisection; R_s rises with pressure (C12_blackoil). *)
From Coq Require Import Reals Lra.
From Coquelicot Require Import Coquelicot.
From Interval Require Import Tactic.
From BBLib Require Import PyPrelude Analysis.
From BBRun Require Import Gen_gas Gen_oil.
From BBRun Require C12_blackoil.
Open Scope R_scope.

Definition lnV (L r : R) : R :=
  ln (10715 / 1000) + - (515 / 1000) * ln (r + 100) + 544 / 100 * exp (- (338 / 1000) * ln (r + 150)) * L.

Lemma lnV_derivative_negative L r : - (147 / 100) <= L <= 9 -> 0 <= r <= 2500 ->
  exists d, is_derive (lnV L) r d /\ d < 0.
Proof.
  intros HL Hr. eexists. split.
  - unfold lnV. auto_derive. repeat split; lra. reflexivity.
  - interval with (i_bisect L, i_bisect r, i_depth 30).
Qed.

Lemma lnV_strictly_decreasing L r1 r2 : - (147 / 100) <= L <= 9 -> 0 <= r1 -> r1 < r2 -> r2 <= 2500 ->
  lnV L r2 < lnV L r1.
Proof.
  intros HL H1 H12 H2.
  assert (HD : forall x, 0 <= x <= 2500 -> is_derive (lnV L) x (Derive (lnV L) x) /\ Derive (lnV L) x < 0).
  { intros x Hx. destruct (lnV_derivative_negative L x HL Hx) as [d [Hd Hneg]].
    rewrite (is_derive_unique _ _ _ Hd). split; assumption. }
  destruct (MVT_gen (lnV L) r1 r2 (Derive (lnV L))) as [c [Hc E]].
  - rewrite Rmin_left, Rmax_right by lra. intros x Hx. apply HD. lra.
  - rewrite Rmin_left, Rmax_right by lra. intros x Hx. apply continuity_pt_filterlim.
    apply (ex_derive_continuous (lnV L)). eexists. apply HD. lra.
  - rewrite Rmin_left, Rmax_right in Hc by lra.
    assert (Derive (lnV L) c < 0) by (apply HD; lra).
    assert (Derive (lnV L) c * (r2 - r1) < 0) by nra. lra.
Qed.

(* the translated dead-to-live conversion is exp(lnV) *)
Lemma mu_live_form D r : 0 < D -> 0 <= r ->
  _mu_dead_to_live_br D r = exp (lnV (ln D) r).
Proof.
  intros HD Hr. unfold _mu_dead_to_live_br, lnV; cbv zeta.
  rewrite !pypow_pos by lra. unfold Rpower.
  rewrite !exp_plus, exp_ln by lra. reflexivity.
Qed.

(* dead-oil viscosity over the box *)
Definition mu_dead (T api : R) := pypow 10 (pypow 10 (30324 / 10000 - 2023 / 100000 * api) * pypow T (- (1163 / 1000))) - 1.

Lemma mu_dead_range T api : 80 <= T <= 350 -> 12 <= api <= 55 ->
  23 / 100 <= mu_dead T api /\ - (147 / 100) <= ln (mu_dead T api) <= 9.
Proof.
  intros HT Ha. unfold mu_dead. rewrite !pypow_pos by lra.
  split; [|split]; interval with (i_bisect T, i_bisect api, i_depth 14).
Qed.

Section Box.
  Variables T api gg Rsi : R.
  Hypothesis HT : 80 <= T <= 350.
  Hypothesis Hapi : 12 <= api <= 55.
  Hypothesis Hgg : 0 < gg.
  Hypothesis HR : 0 < Rsi <= 2500.
  Let pb := pressure_bubblepoint_Standing T api gg Rsi.

  Lemma visc_below p : p < pb ->
    viscosity_beggs_robinson T p api gg Rsi = _mu_dead_to_live_br (mu_dead T api) (solution_gor_Standing T p api gg Rsi).
  Proof.
    intros Hp. unfold viscosity_beggs_robinson; cbv zeta. fold pb. destruct (Rle_dec pb p); [lra|]. reflexivity.
  Qed.
  Lemma visc_above p : pb <= p ->
    viscosity_beggs_robinson T p api gg Rsi
    = _mu_dead_to_live_br (mu_dead T api) Rsi
      * pypow (p / pb) (26 / 10 * pypow p (1187 / 1000) * exp (- (11513 / 1000) - 898 / 10000000 * p)).
  Proof.
    intros Hp. unfold viscosity_beggs_robinson; cbv zeta. fold pb. destruct (Rle_dec pb p); [|lra]. reflexivity.
  Qed.

  Lemma gor_range p : - (2548 / 100) < p -> 0 < solution_gor_Standing T p api gg Rsi <= Rsi.
  Proof.
    intros Hp. destruct (Rlt_le_dec p pb) as [Hlt|Hge].
    - split.
      + unfold solution_gor_Standing; cbv zeta. fold pb. destruct (Rle_dec pb p); [lra|].
        apply Rmult_lt_0_compat; [exact Hgg|]. apply pypow_gt0. apply Rmult_lt_0_compat; [lra|apply pypow_gt0; lra].
      + replace Rsi with (solution_gor_Standing T pb api gg Rsi) at 2.
        * apply C12_blackoil.gor_nondecreasing; try assumption; try lra. 
        * unfold solution_gor_Standing; cbv zeta. fold pb. destruct (Rle_dec pb pb); [reflexivity|lra].
    - unfold solution_gor_Standing; cbv zeta. fold pb. destruct (Rle_dec pb p); [lra|lra].
  Qed.

  (* viscosity is positive everywhere on the box *)
  Theorem viscosity_positive p : 0 < p -> 0 < pb -> 0 < viscosity_beggs_robinson T p api gg Rsi.
  Proof.
    intros Hp Hpb. destruct (mu_dead_range T api HT Hapi) as [HD _].
    destruct (Rlt_le_dec p pb) as [Hlt|Hge].
    - rewrite visc_below by exact Hlt. destruct (gor_range p ltac:(lra)) as [Hg _].
      rewrite mu_live_form by lra. apply exp_pos.
    - rewrite visc_above by exact Hge. apply Rmult_lt_0_compat.
      + rewrite mu_live_form by lra. apply exp_pos.
      + apply pypow_gt0. apply Rdiv_lt_0_compat; lra.
  Qed.

  (* below the bubble point viscosity falls as pressure rises *)
  Theorem viscosity_falls_below_bubblepoint p q : - (2548 / 100) < p -> p < q -> q < pb ->
    viscosity_beggs_robinson T q api gg Rsi < viscosity_beggs_robinson T p api gg Rsi.
  Proof.
    intros Hp Hpq Hq. rewrite !visc_below by lra.
    destruct (mu_dead_range T api HT Hapi) as [HD HL].
    destruct (gor_range p Hp) as [Hgp Hgp']. destruct (gor_range q ltac:(lra)) as [Hgq Hgq'].
    rewrite !mu_live_form by lra. apply exp_increasing.
    apply lnV_strictly_decreasing; try lra.
    rewrite !C12_blackoil.gor_is_below by (fold pb; lra).
    apply C12_blackoil.gor_below_increasing; assumption.
  Qed.
End Box.

Theorem C12_viscosity_positive : forall T api gg Rsi p,
  80 <= T <= 350 -> 12 <= api <= 55 -> 0 < gg -> 0 < Rsi <= 2500 -> 0 < p ->
  0 < pressure_bubblepoint_Standing T api gg Rsi ->
  0 < viscosity_beggs_robinson T p api gg Rsi.
Proof. intros. now apply viscosity_positive. Qed.
Print Assumptions C12_viscosity_positive.

Theorem C12_viscosity_falls_with_pressure_below_bubblepoint : forall T api gg Rsi p q,
  80 <= T <= 350 -> 12 <= api <= 55 -> 0 < gg -> 0 < Rsi <= 2500 ->
  - (2548 / 100) < p -> p < q -> q < pressure_bubblepoint_Standing T api gg Rsi ->
  viscosity_beggs_robinson T q api gg Rsi < viscosity_beggs_robinson T p api gg Rsi.
Proof. intros. now apply viscosity_falls_below_bubblepoint. Qed.
Print Assumptions C12_viscosity_falls_with_pressure_below_bubblepoint.
