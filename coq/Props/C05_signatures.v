(* C05: positional signatures the hand model and the harness rely on, regenerated from the source on every run (see
   C10_signatures.v for the rationale: a field inserted in front of another, or two fields swapped, silently re-routes every
   positional caller - that is a change of these lists). *)
From Coq Require Import List String.
From BBRun Require Import Gen_forecast.
Import ListNotations.
Open Scope string_scope.

Theorem C05_forecaster_signatures :
  ForecasterOnePhase_fields = ["rf_curve"; "bounds"] /\ Bounds_fields = ["M"; "tau"].
Proof. repeat split; reflexivity. Qed.
Print Assumptions C05_forecaster_signatures.
