(* C12 (undersaturated clauses): over the whole input box of the property
     80 <= T <= 350, 12 <= API <= 55, 0.56 <= gas gravity <= 1.3, 20 <= R_si <= 2500,
     50 < p_b <= 30000, p_b <= p <= 2.5 p_b
   the Spivey undersaturated compressibility is positive and the oil FVF falls with pressure above
   the bubble point.  Model: oil.py regenerated on every run.  Method: the quadratic form in the six
   logarithms is reduced to z = z0 + q(ln p_r) with z0 in a proved interval (five one-variable
   interval bounds), then the two-variable sign conditions are proved by interval bisection. *)
From Coq Require Import Reals Lra.
From Coquelicot Require Import Coquelicot.
From Interval Require Import Tactic.
From BBLib Require Import PyPrelude Analysis.
From BBRun Require Import Gen_gas Gen_oil.
Open Scope R_scope.

(* ---- one-variable ranges of the five terms that do not depend on pressure ---- *)
Lemma q_api a : 12 <= a <= 55 ->
  - (35 / 10) <= - (26254 / 10000) * ln a + (497 / 1000) * (ln a) ^ 2 <= - (25 / 10).
Proof. intros. split; interval with (i_bisect a, i_depth 12). Qed.
Lemma q_gg g : 56 / 100 <= g <= 13 / 10 ->
  - (6 / 100) <= - (259 / 1000) * ln g + (382 / 1000) * (ln g) ^ 2 <= 3 / 10.
Proof. intros. split; interval with (i_bisect g, i_depth 12). Qed.
Lemma q_pb b : 50 <= b <= 30000 ->
  - (66 / 10) <= - (289 / 10000) * ln b + - (584 / 10000) * (ln b) ^ 2 <= - (9 / 10).
Proof. intros. split; interval with (i_bisect b, i_depth 20). Qed.
Lemma q_rs r : 20 <= r <= 2500 ->
  - (6 / 10) <= - (642 / 1000) * ln r + (154 / 1000) * (ln r) ^ 2 <= 445 / 100.
Proof. intros. split; interval with (i_bisect r, i_depth 12). Qed.
Lemma q_T t : 80 <= t <= 350 ->
  - (38 / 10) <= - (273 / 100) * ln t + (429 / 1000) * (ln t) ^ 2 <= - (12 / 10).
Proof. intros. split; interval with (i_bisect t, i_depth 12). Qed.

(* ---- the two sign conditions in (z0, p_r) ---- *)
Definition zz (z0 L : R) := z0 - (608 / 1000) * L + (911 / 10000) * L ^ 2.
Definition cb (z : R) := exp (2434 / 1000 + (475 / 1000) * z + (48 / 1000) * z ^ 2).
Definition bracket (z0 pr : R) :=
  1 + (1 - 1 / pr) * ((475 / 1000) + (96 / 1000) * zz z0 (ln pr)) * (- (608 / 1000) + (1822 / 10000) * ln pr).
Definition G (z0 pr : R) := (pr - 1) * (cb (zz z0 (ln pr)) * bracket z0 pr).

Lemma bracket_pos z0 pr : - 8 <= z0 <= 68 / 10 -> 1 <= pr <= 25 / 10 -> 1 / 2 <= bracket z0 pr.
Proof. intros. unfold bracket, zz. interval with (i_bisect z0, i_bisect pr, i_depth 16). Qed.

Lemma G_increasing z0 pr : - 8 <= z0 <= 68 / 10 -> 1 <= pr <= 25 / 10 ->
  exists d, is_derive (G z0) pr d /\ 0 < d.
Proof.
  intros Hz Hp. eexists. split.
  - unfold G, bracket, cb, zz. auto_derive. repeat split; lra. reflexivity.
  - interval with (i_bisect z0, i_bisect pr, i_depth 30).
Qed.

Lemma G_strictly_increasing z0 p1 p2 : - 8 <= z0 <= 68 / 10 -> 1 <= p1 -> p1 < p2 -> p2 <= 25 / 10 ->
  G z0 p1 < G z0 p2.
Proof.
  intros Hz H1 H12 H2.
  assert (HD : forall x, 1 <= x <= 25 / 10 -> is_derive (G z0) x (Derive (G z0) x) /\ 0 < Derive (G z0) x).
  { intros x Hx. destruct (G_increasing z0 x Hz Hx) as [d [Hd Hpos]].
    rewrite (is_derive_unique _ _ _ Hd). split; assumption. }
  destruct (MVT_gen (G z0) p1 p2 (Derive (G z0))) as [c [Hc E]].
  - rewrite Rmin_left, Rmax_right by lra. intros x Hx. apply HD. lra.
  - rewrite Rmin_left, Rmax_right by lra. intros x Hx. apply continuity_pt_filterlim.
    apply (ex_derive_continuous (G z0)). eexists. apply HD. lra.
  - rewrite Rmin_left, Rmax_right in Hc by lra.
    assert (0 < Derive (G z0) c) by (apply HD; lra).
    assert (0 < Derive (G z0) c * (p2 - p1)) by (apply Rmult_lt_0_compat; lra). lra.
Qed.

Section Box.
  Variables T api gg Rsi : R.
  Hypothesis HT : 80 <= T <= 350.
  Hypothesis Hapi : 12 <= api <= 55.
  Hypothesis Hgg : 56 / 100 <= gg <= 13 / 10.
  Hypothesis HR : 20 <= Rsi <= 2500.
  Let pb := pressure_bubblepoint_Standing T api gg Rsi.
  Hypothesis Hpb : 50 < pb <= 30000.

  Definition z0 :=
    (3011 / 1000 + - (835 / 1000) + 351 / 100 + 327 / 1000 + - (1918 / 1000) + 252 / 100)
    + (- (26254 / 10000) * ln api + (497 / 1000) * (ln api) ^ 2)
    + (- (259 / 1000) * ln gg + (382 / 1000) * (ln gg) ^ 2)
    + (- (289 / 10000) * ln pb + - (584 / 10000) * (ln pb) ^ 2)
    + (- (642 / 1000) * ln Rsi + (154 / 1000) * (ln Rsi) ^ 2)
    + (- (273 / 100) * ln T + (429 / 1000) * (ln T) ^ 2).

  Lemma z0_range : - 8 <= z0 <= 68 / 10.
  Proof.
    unfold z0. pose proof (q_api api Hapi). pose proof (q_gg gg Hgg). pose proof (q_pb pb ltac:(lra)).
    pose proof (q_rs Rsi HR). pose proof (q_T T HT). lra.
  Qed.

  Lemma spivey_form p : 0 < p ->
    oil_compressibility_undersat_Spivey T p api gg Rsi
    = 1 / 1000000 * (cb (zz z0 (ln (p / pb))) * bracket z0 (p / pb)).
  Proof.
    intros Hp. unfold oil_compressibility_undersat_Spivey; cbv zeta. fold pb.
    match goal with |- context [exp (2434 / 1000 + 475 / 1000 * ?z + 48 / 1000 * ?z ^ 2)] =>
      replace z with (zz z0 (ln (p / pb))) by (unfold zz, z0; field) end.
    unfold cb, bracket. field. lra.
  Qed.

  (* undersaturated compressibility is positive on [p_b, 2.5 p_b] *)
  Theorem co_positive p : pb <= p <= 25 / 10 * pb ->
    0 < oil_compressibility_undersat_Spivey T p api gg Rsi.
  Proof.
    intros Hp. rewrite spivey_form by lra.
    assert (Hpr : 1 <= p / pb <= 25 / 10).
    { split; apply Rmult_le_reg_r with pb; try lra; unfold Rdiv; rewrite Rmult_assoc, Rinv_l by lra; lra. }
    pose proof (bracket_pos z0 (p / pb) z0_range Hpr).
    apply Rmult_lt_0_compat; [lra|]. apply Rmult_lt_0_compat; [apply exp_pos|lra].
  Qed.

  Lemma Bob_pos : 0 < b_o_bubblepoint_Standing T api gg Rsi.
  Proof.
    unfold b_o_bubblepoint_Standing; cbv zeta.
    assert (0 <= pypow (Rsi * sqrt (gg / (1415 / 10 / (1315 / 10 + api))) + 125 / 100 * T) (12 / 10)).
    { apply pypow_nonneg. apply Rplus_le_le_0_compat; [|lra]. apply Rmult_le_pos; [lra|apply sqrt_pos]. }
    lra.
  Qed.

  (* oil FVF falls with pressure above the bubble point *)
  Theorem Bo_decreasing_above p q : pb <= p -> p < q -> q <= 25 / 10 * pb ->
    b_o_Standing T q api gg Rsi < b_o_Standing T p api gg Rsi.
  Proof.
    intros Hp Hpq Hq.
    assert (Hform : forall x, pb <= x -> b_o_Standing T x api gg Rsi
              = b_o_bubblepoint_Standing T api gg Rsi * exp (- (1 / 1000000) * pb * G z0 (x / pb))).
    { intros x Hx. unfold b_o_Standing; cbv zeta. fold pb. destruct (Rle_dec pb x); [|lra].
      rewrite spivey_form by lra. f_equal. f_equal. unfold G. field. lra. }
    rewrite !Hform by lra. apply Rmult_lt_compat_l; [apply Bob_pos|]. apply exp_increasing.
    assert (Hr : forall x, pb <= x <= 25 / 10 * pb -> 1 <= x / pb <= 25 / 10).
    { intros x Hx. split; apply Rmult_le_reg_r with pb; try lra; unfold Rdiv; rewrite Rmult_assoc, Rinv_l by lra; lra. }
    assert (Hlt : p / pb < q / pb) by (unfold Rdiv; apply Rmult_lt_compat_r; [apply Rinv_0_lt_compat; lra|lra]).
    pose proof (G_strictly_increasing z0 (p / pb) (q / pb) z0_range (proj1 (Hr p ltac:(lra))) Hlt (proj2 (Hr q ltac:(lra)))).
    nra.
  Qed.
End Box.

Theorem C12_undersaturated_compressibility_positive : forall T api gg Rsi p,
  80 <= T <= 350 -> 12 <= api <= 55 -> 56 / 100 <= gg <= 13 / 10 -> 20 <= Rsi <= 2500 ->
  50 < pressure_bubblepoint_Standing T api gg Rsi <= 30000 ->
  pressure_bubblepoint_Standing T api gg Rsi <= p <= 25 / 10 * pressure_bubblepoint_Standing T api gg Rsi ->
  0 < oil_compressibility_undersat_Spivey T p api gg Rsi.
Proof. intros. now apply co_positive. Qed.
Print Assumptions C12_undersaturated_compressibility_positive.

Theorem C12_Bo_falls_above_bubblepoint : forall T api gg Rsi p q,
  80 <= T <= 350 -> 12 <= api <= 55 -> 56 / 100 <= gg <= 13 / 10 -> 20 <= Rsi <= 2500 ->
  50 < pressure_bubblepoint_Standing T api gg Rsi <= 30000 ->
  pressure_bubblepoint_Standing T api gg Rsi <= p -> p < q ->
  q <= 25 / 10 * pressure_bubblepoint_Standing T api gg Rsi ->
  b_o_Standing T q api gg Rsi < b_o_Standing T p api gg Rsi.
Proof. intros. now apply Bo_decreasing_above. Qed.
Print Assumptions C12_Bo_falls_above_bubblepoint.
