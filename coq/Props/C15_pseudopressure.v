(* C15: the multiphase pseudopressure is the cumulative trapezoid, over PRESSURE, of the total
   mass mobility defined in the documentation, evaluated row by row.  Model:
   pseudopressure_threephase regenerated from flowproperties.py on every run. *)
From Coq Require Import Reals List Lra Lia.
From BBLib Require Import PyPrelude Trapz Multiphase_spec.
From BBRun Require Import Gen_flowprops.
Import ListNotations.
Open Scope R_scope.

Section C15.
  Variables rho_o rho_g rho_w : R.
  Variables Rv Rs mu_o mu_g mu_w Bo Bg Bw kro krg krw : R -> R.
  Let mob := mobility rho_o rho_g rho_w Rv Rs mu_o mu_g mu_w Bo Bg Bw kro krg krw.
  Let pp3 P So := pseudopressure_threephase P So rho_o rho_g rho_w Rv Rs mu_o mu_g mu_w Bo Bg Bw kro krg krw.

  (* the integrand list and the abscissa list the translated code hands to cumulative_trapezoid *)
  Definition code_integrand (P So : list R) : list R :=
    ltac:(let t := eval cbv beta zeta delta [pseudopressure_threephase] in
            (pseudopressure_threephase P So rho_o rho_g rho_w Rv Rs mu_o mu_g mu_w Bo Bg Bw kro krg krw) in
          match t with cumtrapz ?i _ => exact i end).
  Definition code_abscissa (P So : list R) : list R :=
    ltac:(let t := eval cbv beta zeta delta [pseudopressure_threephase] in
            (pseudopressure_threephase P So rho_o rho_g rho_w Rv Rs mu_o mu_g mu_w Bo Bg Bw kro krg krw) in
          match t with cumtrapz _ ?x => exact x end).

  Lemma code_form P So : pp3 P So = cumtrapz (code_integrand P So) (code_abscissa P So).
  Proof. reflexivity. Qed.

  (* the integration variable is the pressure column *)
  Lemma abscissa_is_pressure P So : code_abscissa P So = P.
  Proof. reflexivity. Qed.

  (* the integrand is the documented total mobility at each (pressure, saturation) row *)
  Lemma integrand_is_mobility : forall P So, length So = length P ->
    code_integrand P So = map (fun r => mob (fst r) (snd r)) (combine P So).
  Proof.
    unfold code_integrand, vadd, vsub, vmul, vdiv, vmap2, smul.
    induction P as [|p Pt IH]; intros So Hl; destruct So as [|s St]; try discriminate; [reflexivity|].
    simpl. f_equal.
    - unfold mob, mobility, Rdiv. ring.
    - apply IH. simpl in Hl. lia.
  Qed.

  Theorem pseudopressure_is_integral_of_mobility_over_pressure P So : length So = length P ->
    pp3 P So = cumtrapz (map (fun r => mob (fst r) (snd r)) (combine P So)) P.
  Proof. intros Hl. rewrite code_form, abscissa_is_pressure, integrand_is_mobility by exact Hl. reflexivity. Qed.

  Theorem zero_at_first_pressure P So : length So = length P -> P <> [] -> nth 0 (pp3 P So) 0 = 0.
  Proof.
    intros Hl HP. rewrite pseudopressure_is_integral_of_mobility_over_pressure by exact Hl.
    apply cumtrapz_first. destruct P; [contradiction|]. destruct So; [discriminate|]. discriminate.
  Qed.

  Theorem strictly_increasing_where_mobile P So : length So = length P -> Trapz.increasing P ->
    (forall r, In r (combine P So) -> 0 < mob (fst r) (snd r)) ->
    match pp3 P So with [] => True | a :: t => a = 0 /\ chain_lt a t end.
  Proof.
    intros Hl Hinc Hpos. rewrite pseudopressure_is_integral_of_mobility_over_pressure by exact Hl.
    apply cumtrapz_strictly_increasing.
    - rewrite map_length, combine_length. lia.
    - exact Hinc.
    - apply Forall_forall. intros v Hv. apply in_map_iff in Hv. destruct Hv as [r [<- Hr]]. now apply Hpos.
  Qed.
End C15.

Theorem C15_pseudopressure_is_integral_of_documented_mobility_over_pressure :
  forall rho_o rho_g rho_w Rv Rs mu_o mu_g mu_w Bo Bg Bw kro krg krw P So, length So = length P ->
    pseudopressure_threephase P So rho_o rho_g rho_w Rv Rs mu_o mu_g mu_w Bo Bg Bw kro krg krw
    = cumtrapz (map (fun r => mobility rho_o rho_g rho_w Rv Rs mu_o mu_g mu_w Bo Bg Bw kro krg krw (fst r) (snd r))
                    (combine P So)) P.
Proof. intros. now apply pseudopressure_is_integral_of_mobility_over_pressure. Qed.
Print Assumptions C15_pseudopressure_is_integral_of_documented_mobility_over_pressure.

Theorem C15_zero_at_first_pressure :
  forall rho_o rho_g rho_w Rv Rs mu_o mu_g mu_w Bo Bg Bw kro krg krw P So, length So = length P -> P <> [] ->
    nth 0 (pseudopressure_threephase P So rho_o rho_g rho_w Rv Rs mu_o mu_g mu_w Bo Bg Bw kro krg krw) 0 = 0.
Proof. intros. now apply zero_at_first_pressure. Qed.
Print Assumptions C15_zero_at_first_pressure.

Theorem C15_strictly_increasing_where_mobility_positive :
  forall rho_o rho_g rho_w Rv Rs mu_o mu_g mu_w Bo Bg Bw kro krg krw P So, length So = length P ->
    Trapz.increasing P ->
    (forall r, In r (combine P So) ->
       0 < mobility rho_o rho_g rho_w Rv Rs mu_o mu_g mu_w Bo Bg Bw kro krg krw (fst r) (snd r)) ->
    match pseudopressure_threephase P So rho_o rho_g rho_w Rv Rs mu_o mu_g mu_w Bo Bg Bw kro krg krw with
    | [] => True | a :: t => a = 0 /\ chain_lt a t end.
Proof. intros. now apply strictly_increasing_where_mobile. Qed.
Print Assumptions C15_strictly_increasing_where_mobility_positive.

(* scaling mobility by a constant (all reference densities times c) scales the pseudopressure *)
Theorem C15_scales_with_constant_factor :
  forall c rho_o rho_g rho_w Rv Rs mu_o mu_g mu_w Bo Bg Bw kro krg krw P So, length So = length P ->
    pseudopressure_threephase P So (c * rho_o) (c * rho_g) (c * rho_w) Rv Rs mu_o mu_g mu_w Bo Bg Bw kro krg krw
    = smul c (pseudopressure_threephase P So rho_o rho_g rho_w Rv Rs mu_o mu_g mu_w Bo Bg Bw kro krg krw).
Proof.
  intros. rewrite !pseudopressure_is_integral_of_mobility_over_pressure by assumption.
  rewrite <- cumtrapz_scal. f_equal. unfold smul. rewrite map_map. apply map_ext.
  intros r. unfold mobility. ring.
Qed.
Print Assumptions C15_scales_with_constant_factor.
