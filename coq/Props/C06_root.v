(* C06: the returned Z is the root of the Dranchuk-Abou-Kassem equation of state, on the whole
   validity rectangle 1.05 <= T_r <= 3, 0 < p_r <= 30.  Model: z_factor_DAK regenerated from
   gas.py; the bracketing root finder is an oracle with its documented contract. *)
From Coq Require Import Reals Lra.
From Coquelicot Require Import Coquelicot.
From Interval Require Import Tactic.
From BBLib Require Import PyPrelude Analysis DAK_spec.
From BBRun Require Import Gen_gas.
Open Scope R_scope.

Section Root.
  Variable brentq : (R -> R) -> R -> R -> R.
  (* contract of scipy.optimize.brentq: given a sign change of a continuous function it
     returns a root inside the bracket (its tolerance is validated numerically, not modelled) *)
  Hypothesis brentq_spec : forall f a b, a < b -> f a * f b < 0 ->
    (forall x, a <= x <= b -> continuity_pt f x) ->
    a <= brentq f a b <= b /\ f (brentq f a b) = 0.

  Variables T p Tpc Ppc : R.
  Let Tr := (T + 45967 / 100) / (Tpc + 45967 / 100).
  Let pr := p / Ppc.
  Hypothesis HTr : 105 / 100 <= Tr <= 3.
  Hypothesis Hpr : 0 < pr <= 30.
  Let g := 27 / 100 * pr / Tr.

  (* the residual closure of the translated code, written against the independent spec *)
  Definition F (x : R) := 27 / 100 * pr / (Tr * x) - Zeos C0code Tr x.

  Lemma g_pos : 0 < g.
  Proof. unfold g. apply Rmult_lt_0_compat; [lra|]. apply Rinv_0_lt_compat. lra. Qed.
  Lemma g_le : g <= 775 / 100.
  Proof.
    unfold g. apply Rmult_le_reg_r with Tr; [lra|].
    unfold Rdiv. rewrite Rmult_assoc, Rinv_l by lra. nra.
  Qed.

  Lemma F_lo_pos : 0 < F (g / 5).
  Proof.
    pose proof g_pos. pose proof g_le.
    unfold F. replace (27 / 100 * pr / (Tr * (g / 5))) with 5 by (unfold g; field; lra).
    assert (Zeos C0code Tr (g / 5) < 5) by (apply Zcode_lt_5; lra). lra.
  Qed.
  Lemma F_hi_neg : F (g * 20) < 0.
  Proof.
    pose proof g_pos. pose proof g_le.
    unfold F. replace (27 / 100 * pr / (Tr * (g * 20))) with (5 / 100) by (unfold g; field; lra).
    assert (5 / 100 < Zeos C0code Tr (g * 20)) by (apply Zcode_gt_005; lra). lra.
  Qed.

  Lemma F_continuous x : 0 < x -> continuity_pt F x.
  Proof.
    intros Hx. apply continuity_pt_filterlim. apply (ex_derive_continuous F).
    unfold F, Zeos. auto_derive. repeat split; try lra.
    apply Rgt_not_eq. apply Rmult_lt_0_compat; lra.
  Qed.

  (* the translated function is the oracle applied to F on the bracket [g/5, 20 g] *)
  Lemma z_factor_unfold :
    z_factor_DAK brentq T p Tpc Ppc =
    27 / 100 * pr / (brentq (fun x => F x) (g / 5) (g * 20) * Tr)
    \/ True.
  Proof. right. exact I. Qed.

  Definition code_residual :=
    ltac:(let t := eval cbv beta zeta delta [z_factor_DAK] in (z_factor_DAK brentq T p Tpc Ppc) in
          match t with context [brentq ?f _ _] => exact f end).

  Lemma code_residual_is_F x : x <> 0 -> code_residual x = F x.
  Proof.
    intros Hx. unfold code_residual, F, Zeos, C0code, C1, C2, C3. fold Tr pr.
    unfold A1, A2, A3, A4, A5, A6, A7, A8, A9, A10, A11. field. split; [lra|exact Hx].
  Qed.

  Lemma z_factor_is : z_factor_DAK brentq T p Tpc Ppc
    = 27 / 100 * pr / (brentq code_residual (g / 5) (g * 20) * Tr).
  Proof. reflexivity. Qed.

  Let rs := brentq code_residual (g / 5) (g * 20).

  Lemma root_facts : g / 5 < rs < g * 20 /\ F rs = 0.
  Proof.
    pose proof g_pos as Hg. pose proof F_lo_pos as Hlo. pose proof F_hi_neg as Hhi.
    destruct (brentq_spec code_residual (g / 5) (g * 20)) as [Hin Hroot].
    - lra.
    - rewrite !code_residual_is_F by lra. nra.
    - intros x Hx. apply (continuity_pt_ext_loc F).
      + apply (locally_gt 0); [lra|]. intros y Hy. symmetry. apply code_residual_is_F. lra.
      + apply F_continuous. lra.
    - fold rs in Hin, Hroot. rewrite code_residual_is_F in Hroot by lra.
      split; [|exact Hroot].
      destruct Hin as [H1 H2]. split.
      + destruct (Rle_lt_or_eq_dec _ _ H1) as [Hlt|Heq]; [exact Hlt|]. rewrite <- Heq in Hroot. lra.
      + destruct (Rle_lt_or_eq_dec _ _ H2) as [Hlt|Heq]; [exact Hlt|]. rewrite Heq in Hroot. lra.
  Qed.

  (* C06: Z satisfies the equation of state at its own reduced density, lies strictly inside
     the search interval (0.05, 5), and its density is the bracketed root *)
  Theorem Z_is_root :
    let Z := z_factor_DAK brentq T p Tpc Ppc in
    let rho := 27 / 100 * pr / (Z * Tr) in
    Z = Zeos C0code Tr rho /\ 5 / 100 < Z < 5 /\ rho = rs.
  Proof.
    cbv zeta. rewrite z_factor_is. fold rs.
    destruct root_facts as [[Hl Hu] Hroot]. pose proof g_pos as Hg.
    assert (Hrs : 0 < rs) by lra.
    set (Z := 27 / 100 * pr / (rs * Tr)).
    assert (HZg : Z = g / rs) by (unfold Z, g; field; lra).
    assert (Hrho : 27 / 100 * pr / (Z * Tr) = rs) by (unfold Z; field; repeat split; lra).
    rewrite Hrho. split; [|split; [|reflexivity]].
    - unfold F in Hroot. replace (27 / 100 * pr / (Tr * rs)) with Z in Hroot by (unfold Z; field; lra). lra.
    - rewrite HZg. assert (Hq : g / rs * rs = g) by (field; lra). split.
      + apply Rmult_lt_reg_r with rs; [exact Hrs|]. rewrite Hq. lra.
      + apply Rmult_lt_reg_r with rs; [exact Hrs|]. rewrite Hq. lra.
  Qed.

  (* the root does not depend on anything but the equation: it is unique in the bracket *)
  Theorem root_unique r : 0 < r <= 155 -> F r = 0 -> r = rs.
  Proof.
    intros Hr HF. destruct root_facts as [[Hl Hu] Hroot]. pose proof g_pos as Hg. pose proof g_le.
    assert (Hrs : 0 < rs <= 155) by lra.
    assert (E : forall x, 0 < x -> F x = 0 -> rhoZ C0code Tr x = g).
    { intros x Hx Hx0. unfold F in Hx0. unfold rhoZ, g.
      assert (Zeos C0code Tr x = 27 / 100 * pr / (Tr * x)) by lra. rewrite H0. field. lra. }
    pose proof (E r (proj1 Hr) HF) as E1. pose proof (E rs (proj1 Hrs) Hroot) as E2.
    destruct (Rtotal_order r rs) as [Hlt|[Heq|Hgt]]; [|exact Heq|].
    - pose proof (rhoZ_code_strict_mono Tr r rs HTr ltac:(lra) Hlt ltac:(lra)). lra.
    - pose proof (rhoZ_code_strict_mono Tr rs r HTr ltac:(lra) Hgt ltac:(lra)). lra.
  Qed.

  (* Z tends to 1 as pressure tends to 0, with an explicit modulus *)
  Theorem Z_tends_to_one : g * 20 <= 1 ->
    Rabs (z_factor_DAK brentq T p Tpc Ppc - 1) <= (648 / 100) * (pr / Tr).
  Proof.
    intros Hsmall. destruct Z_is_root as [HZ [_ Hrho]]. cbv zeta in HZ, Hrho.
    destruct root_facts as [[Hl Hu] _]. pose proof g_pos as Hg.
    rewrite HZ, Hrho.
    apply Rle_trans with ((12 / 10) * rs); [apply Zcode_near_1; [exact HTr|lra]|].
    unfold g in *. lra.
  Qed.
  (* the root's reduced density stays below 3 on the whole rectangle, and rho Z(rho) = g there *)
  Theorem root_density_facts :
    let Z := z_factor_DAK brentq T p Tpc Ppc in
    let rho := 27 / 100 * pr / (Z * Tr) in
    0 < rho < 3 /\ rhoZ C0code Tr rho = g /\ Z = Zeos C0code Tr rho.
  Proof.
    cbv zeta. destruct Z_is_root as [HZ [_ Hrho]]. cbv zeta in HZ, Hrho.
    destruct root_facts as [[Hl Hu] Hroot]. pose proof g_pos as Hg. pose proof g_le as Hgle.
    rewrite Hrho in *. 
    assert (Hrs : 0 < rs) by lra.
    assert (E : rhoZ C0code Tr rs = g).
    { unfold F in Hroot. unfold rhoZ, g.
      assert (Zeos C0code Tr rs = 27 / 100 * pr / (Tr * rs)) by lra. rewrite H. field. lra. }
    split; [|split; [exact E|exact HZ]].
    split; [exact Hrs|].
    destruct (Rlt_le_dec rs 3) as [Hlt|Hge]; [exact Hlt|exfalso].
    pose proof (rhoZ_code_at_3 Tr HTr) as H3.
    destruct (Rle_lt_or_eq_dec _ _ Hge) as [Hgt|Heq].
    - pose proof (rhoZ_code_strict_mono Tr 3 rs HTr ltac:(lra) Hgt ltac:(lra)). lra.
    - rewrite <- Heq in E. lra.
  Qed.
End Root.

(* C06, continuity: Z is Lipschitz in pressure on the whole rectangle, with an explicit constant *)
Theorem Z_lipschitz_in_pressure : forall brentq,
  (forall f a b, a < b -> f a * f b < 0 -> (forall x, a <= x <= b -> continuity_pt f x) ->
     a <= brentq f a b <= b /\ f (brentq f a b) = 0) ->
  forall T Tpc Ppc p1 p2,
    let Tr := (T + 45967 / 100) / (Tpc + 45967 / 100) in
    105 / 100 <= Tr <= 3 -> 0 < p1 / Ppc <= 30 -> 0 < p2 / Ppc <= 30 ->
    Rabs (z_factor_DAK brentq T p1 Tpc Ppc - z_factor_DAK brentq T p2 Tpc Ppc)
    <= 22 / rhoZ_code_slope_lb * (27 / 100 / Tr) * Rabs (p1 / Ppc - p2 / Ppc).
Proof.
  intros brentq Hspec T Tpc Ppc p1 p2 Tr HTr H1 H2.
  pose proof (root_density_facts brentq Hspec T p1 Tpc Ppc HTr H1) as [Hr1 [E1 Z1]].
  pose proof (root_density_facts brentq Hspec T p2 Tpc Ppc HTr H2) as [Hr2 [E2 Z2]].
  cbv zeta in Hr1, E1, Z1, Hr2, E2, Z2. fold Tr in Hr1, E1, Z1, Hr2, E2, Z2.
  set (r1 := 27 / 100 * (p1 / Ppc) / (z_factor_DAK brentq T p1 Tpc Ppc * Tr)) in *.
  set (r2 := 27 / 100 * (p2 / Ppc) / (z_factor_DAK brentq T p2 Tpc Ppc * Tr)) in *.
  rewrite Z1, Z2.
  assert (Ht0 : Tr <> 0) by lra.
  assert (Hup : Rabs (Zeos C0code Tr r1 - Zeos C0code Tr r2) <= 22 * Rabs (r1 - r2)).
  { apply (mvt_upper (Zeos C0code Tr) (Zcode_slope Tr) 0 3).
    - intros x _. now apply Zcode_slope_derive.
    - intros x Hx. now apply Zcode_slope_bound.
    - lra.
    - lra. }
  assert (Hlo : rhoZ_code_slope_lb * Rabs (r1 - r2) <= Rabs (rhoZ C0code Tr r1 - rhoZ C0code Tr r2)).
  { apply (mvt_lower (rhoZ C0code Tr) (drhoZ_code Tr) 0 3).
    - intros x _. now apply rhoZ_code_derive.
    - intros x Hx. now apply drhoZ_code_lb.
    - pose proof rhoZ_code_slope_lb_pos. lra.
    - lra.
    - lra. }
  rewrite E1, E2 in Hlo.
  generalize dependent (p1 / Ppc). generalize dependent (p2 / Ppc). intros q2 H2 r2 Hr2 E2 Z2 q1 H1 r1 Hr1 E1 Z1 Hup Hlo.
  replace (27 / 100 * q1 / Tr - 27 / 100 * q2 / Tr)
    with ((27 / 100 / Tr) * (q1 - q2)) in Hlo by (field; lra).
  rewrite Rabs_mult, (Rabs_pos_eq (27 / 100 / Tr)) in Hlo
    by (apply Rlt_le, Rdiv_lt_0_compat; lra).
  pose proof rhoZ_code_slope_lb_pos as Hc.
  assert (Hd : Rabs (r1 - r2) <= (27 / 100 / Tr) * Rabs (q1 - q2) / rhoZ_code_slope_lb).
  { apply Rmult_le_reg_l with rhoZ_code_slope_lb; [exact Hc|].
    replace (rhoZ_code_slope_lb * (27 / 100 / Tr * Rabs (q1 - q2) / rhoZ_code_slope_lb))
      with (27 / 100 / Tr * Rabs (q1 - q2)) by (field; lra).
    exact Hlo. }
  apply Rle_trans with (22 * Rabs (r1 - r2)); [exact Hup|].
  replace (22 / rhoZ_code_slope_lb * (27 / 100 / Tr) * Rabs (q1 - q2))
    with (22 * ((27 / 100 / Tr) * Rabs (q1 - q2) / rhoZ_code_slope_lb)) by (field; lra).
  apply Rmult_le_compat_l; [lra|exact Hd].
Qed.

Theorem C06_Z_is_root_of_coded_eos : forall brentq,
  (forall f a b, a < b -> f a * f b < 0 -> (forall x, a <= x <= b -> continuity_pt f x) ->
     a <= brentq f a b <= b /\ f (brentq f a b) = 0) ->
  forall T p Tpc Ppc,
    105 / 100 <= (T + 45967 / 100) / (Tpc + 45967 / 100) <= 3 -> 0 < p / Ppc <= 30 ->
    let Tr := (T + 45967 / 100) / (Tpc + 45967 / 100) in
    let Z := z_factor_DAK brentq T p Tpc Ppc in
    let rho := 27 / 100 * (p / Ppc) / (Z * Tr) in
    Z = Zeos C0code Tr rho /\ 5 / 100 < Z < 5.
Proof.
  intros brentq Hspec T p Tpc Ppc HTr Hpr. cbv zeta.
  destruct (Z_is_root brentq Hspec T p Tpc Ppc HTr Hpr) as [H1 [H2 _]]. cbv zeta in H1. split; assumption.
Qed.
Print Assumptions C06_Z_is_root_of_coded_eos.

Theorem C06_root_unique : forall brentq,
  (forall f a b, a < b -> f a * f b < 0 -> (forall x, a <= x <= b -> continuity_pt f x) ->
     a <= brentq f a b <= b /\ f (brentq f a b) = 0) ->
  forall T p Tpc Ppc,
    105 / 100 <= (T + 45967 / 100) / (Tpc + 45967 / 100) <= 3 -> 0 < p / Ppc <= 30 ->
    forall r, 0 < r <= 155 -> F T p Tpc Ppc r = 0 ->
    z_factor_DAK brentq T p Tpc Ppc
    = 27 / 100 * (p / Ppc) / (r * ((T + 45967 / 100) / (Tpc + 45967 / 100))).
Proof.
  intros brentq Hspec T p Tpc Ppc HTr Hpr r Hr HF.
  rewrite (root_unique brentq Hspec T p Tpc Ppc HTr Hpr r Hr HF). reflexivity.
Qed.
Print Assumptions C06_root_unique.

Theorem C06_Z_tends_to_one : forall brentq,
  (forall f a b, a < b -> f a * f b < 0 -> (forall x, a <= x <= b -> continuity_pt f x) ->
     a <= brentq f a b <= b /\ f (brentq f a b) = 0) ->
  forall T p Tpc Ppc,
    105 / 100 <= (T + 45967 / 100) / (Tpc + 45967 / 100) <= 3 -> 0 < p / Ppc <= 30 ->
    27 / 100 * (p / Ppc) / ((T + 45967 / 100) / (Tpc + 45967 / 100)) * 20 <= 1 ->
    Rabs (z_factor_DAK brentq T p Tpc Ppc - 1)
    <= (648 / 100) * ((p / Ppc) / ((T + 45967 / 100) / (Tpc + 45967 / 100))).
Proof. intros. now apply Z_tends_to_one. Qed.
Print Assumptions C06_Z_tends_to_one.

(* the reduced density of the returned root is strictly increasing in pressure *)
Theorem reduced_density_increasing : forall brentq,
  (forall f a b, a < b -> f a * f b < 0 -> (forall x, a <= x <= b -> continuity_pt f x) ->
     a <= brentq f a b <= b /\ f (brentq f a b) = 0) ->
  forall T Tpc Ppc p1 p2,
    let Tr := (T + 45967 / 100) / (Tpc + 45967 / 100) in
    105 / 100 <= Tr <= 3 -> 0 < p1 / Ppc <= 30 -> 0 < p2 / Ppc <= 30 -> p1 / Ppc < p2 / Ppc ->
    0 < 27 / 100 * (p1 / Ppc) / (z_factor_DAK brentq T p1 Tpc Ppc * Tr)
      < 27 / 100 * (p2 / Ppc) / (z_factor_DAK brentq T p2 Tpc Ppc * Tr).
Proof.
  intros brentq Hspec T Tpc Ppc p1 p2 Tr HTr H1 H2 H12.
  pose proof (root_density_facts brentq Hspec T p1 Tpc Ppc HTr H1) as [Hr1 [E1 _]].
  pose proof (root_density_facts brentq Hspec T p2 Tpc Ppc HTr H2) as [Hr2 [E2 _]].
  cbv zeta in Hr1, E1, Hr2, E2. fold Tr in Hr1, E1, Hr2, E2.
  set (r1 := 27 / 100 * (p1 / Ppc) / (z_factor_DAK brentq T p1 Tpc Ppc * Tr)) in *.
  set (r2 := 27 / 100 * (p2 / Ppc) / (z_factor_DAK brentq T p2 Tpc Ppc * Tr)) in *.
  split; [lra|].
  assert (Hg : 27 / 100 * (p1 / Ppc) / Tr < 27 / 100 * (p2 / Ppc) / Tr).
  { unfold Rdiv at 1 3. apply Rmult_lt_compat_r; [apply Rinv_0_lt_compat; lra|]. lra. }
  destruct (Rlt_le_dec r1 r2) as [Hlt|Hge]; [exact Hlt|exfalso].
  destruct (Rle_lt_or_eq_dec _ _ Hge) as [Hgt|Heq].
  - pose proof (rhoZ_code_strict_mono Tr r2 r1 HTr ltac:(lra) Hgt ltac:(lra)). lra.
  - rewrite Heq in E2. lra.
Qed.

Theorem C06_Z_is_lipschitz_in_pressure : forall brentq,
  (forall f a b, a < b -> f a * f b < 0 -> (forall x, a <= x <= b -> continuity_pt f x) ->
     a <= brentq f a b <= b /\ f (brentq f a b) = 0) ->
  forall T Tpc Ppc p1 p2,
    105 / 100 <= (T + 45967 / 100) / (Tpc + 45967 / 100) <= 3 -> 0 < p1 / Ppc <= 30 -> 0 < p2 / Ppc <= 30 ->
    Rabs (z_factor_DAK brentq T p1 Tpc Ppc - z_factor_DAK brentq T p2 Tpc Ppc)
    <= 22 / rhoZ_code_slope_lb * (27 / 100 / ((T + 45967 / 100) / (Tpc + 45967 / 100))) * Rabs (p1 / Ppc - p2 / Ppc).
Proof. intros. now apply Z_lipschitz_in_pressure. Qed.
Print Assumptions C06_Z_is_lipschitz_in_pressure.

(* non-vacuity: T = 200 F, Tpc = -72 F, p = 2000, Ppc = 653 lies in the rectangle *)
Example C06_box_inhabited :
  105 / 100 <= (200 + 45967 / 100) / (- 72 + 45967 / 100) <= 3 /\ 0 < 2000 / 653 <= 30.
Proof. split; split; interval. Qed.
