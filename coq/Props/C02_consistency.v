(* C02, consistency half: the exact solution of the scaled diffusion equation u_t = a u_xx satisfies every interior
   row of the implicit step up to the defect  M_tt dt^2/2 + a dt M_xxxx h^2/12,  and the computed field stays within
   the accumulated defects of any such reference (stability, C02_convergence.v): first order in the time step and
   second order in the mesh width at the interior rows.  The two boundary rows (Dirichlet ghost node at the fracture
   face: exact; mirror row at the outer boundary: a first-order defect, like the O(h) mismatch between the grid's
   length and the documented unit interval) enter the accumulation theorem as hypotheses; the statement
   "first-order small, shrinking under refinement" for the documented problem itself is validated on the ladders. *)
From Coq Require Import Reals Lra Lia.
From Coquelicot Require Import Coquelicot.
From BBLib Require Import MinPrinciple ConvThms Truncation Consistency.
Open Scope R_scope.

Theorem C02_backward_difference_defect : forall (g g1 g2 : R -> R) t1 dt M2, 0 <= dt ->
  (forall t, t1 - dt <= t <= t1 -> is_derive g t (g1 t)) ->
  (forall t, t1 - dt <= t <= t1 -> is_derive g1 t (g2 t)) ->
  (forall t, t1 - dt <= t <= t1 -> Rabs (g2 t) <= M2) ->
  Rabs (g t1 - g (t1 - dt) - dt * g1 t1) <= M2 * dt ^ 2 / 2.
Proof. exact backward_difference_defect. Qed.
Print Assumptions C02_backward_difference_defect.

Theorem C02_second_difference_defect : forall (f f1 f2 f3 f4 : R -> R) x h M4, 0 <= h ->
  (forall y, x - h <= y <= x + h -> is_derive f y (f1 y)) ->
  (forall y, x - h <= y <= x + h -> is_derive f1 y (f2 y)) ->
  (forall y, x - h <= y <= x + h -> is_derive f2 y (f3 y)) ->
  (forall y, x - h <= y <= x + h -> is_derive f3 y (f4 y)) ->
  (forall y, x - h <= y <= x + h -> Rabs (f4 y) <= M4) ->
  Rabs (f (x + h) - 2 * f x + f (x - h) - h ^ 2 * f2 x) <= M4 * h ^ 4 / 12.
Proof. exact second_difference_defect. Qed.
Print Assumptions C02_second_difference_defect.

Theorem C02_interior_rows_are_consistent : forall (u : R -> R -> R) (ut utt u1 u2 u3 u4 : R -> R) xj h t1 dt a M2 M4,
  0 < h -> 0 <= dt -> 0 <= a ->
  (forall t, t1 - dt <= t <= t1 -> is_derive (u xj) t (ut t)) ->
  (forall t, t1 - dt <= t <= t1 -> is_derive ut t (utt t)) ->
  (forall t, t1 - dt <= t <= t1 -> Rabs (utt t) <= M2) ->
  (forall y, xj - h <= y <= xj + h -> is_derive (fun y => u y t1) y (u1 y)) ->
  (forall y, xj - h <= y <= xj + h -> is_derive u1 y (u2 y)) ->
  (forall y, xj - h <= y <= xj + h -> is_derive u2 y (u3 y)) ->
  (forall y, xj - h <= y <= xj + h -> is_derive u3 y (u4 y)) ->
  (forall y, xj - h <= y <= xj + h -> Rabs (u4 y) <= M4) ->
  ut t1 = a * u2 xj ->
  let K := a * dt / h ^ 2 in
  Rabs ((u xj t1 - K * (u (xj - h) t1 - 2 * u xj t1 + u (xj + h) t1)) - u xj (t1 - dt))
  <= M2 * dt ^ 2 / 2 + a * dt * (M4 * h ^ 2 / 12).
Proof. exact interior_row_defect. Qed.
Print Assumptions C02_interior_rows_are_consistent.

Theorem C02_error_is_at_most_the_accumulated_defect :
  forall (n : nat) (K : nat -> nat -> R) (U W tau : nat -> nat -> R) (g : nat -> R) (T : nat -> R) E0,
  (1 <= n)%nat -> (forall k j, (1 <= j <= n)%nat -> 0 <= K k j) ->
  (forall k, Sys n (K (S k)) (U k) (U (S k)) (g (S k))) ->
  (forall k, Sys n (K (S k)) (fun j => W k j + tau (S k) j) (W (S k)) (g (S k))) ->
  (forall k j, (1 <= j <= n)%nat -> Rabs (tau (S k) j) <= T (S k)) ->
  (forall j, (1 <= j <= n)%nat -> Rabs (U 0%nat j - W 0%nat j) <= E0) ->
  forall k j, (1 <= j <= n)%nat -> Rabs (U k j - W k j) <= E0 + tsum T k.
Proof. exact accumulated_error. Qed.
Print Assumptions C02_error_is_at_most_the_accumulated_defect.

(* non-vacuity: u(x,t) = exp(-t) sin x solves u_t = u_xx; at any node, for t1 - dt >= 0, M_tt = M_xxxx = 1 *)
Example C02_consistency_hypotheses_inhabited : forall xj h t1 dt, 0 < h -> 0 <= dt -> 0 <= t1 - dt ->
  Rabs ((exp (- t1) * sin xj - 1 * dt / h ^ 2 * (exp (- t1) * sin (xj - h) - 2 * (exp (- t1) * sin xj) + exp (- t1) * sin (xj + h)))
        - exp (- (t1 - dt)) * sin xj)
  <= 1 * dt ^ 2 / 2 + 1 * dt * (1 * h ^ 2 / 12).
Proof.
  intros xj h t1 dt Hh Hdt Ht.
  assert (E : forall t, 0 <= t -> exp (- t) <= 1).
  { intros t H. rewrite <- exp_0. destruct (Req_dec t 0) as [->|Hne]; [rewrite Ropp_0; lra|]. left. apply exp_increasing. lra. }
  assert (S1 : forall y c, 0 <= c <= 1 -> Rabs (c * sin y) <= 1).
  { intros y c Hc. rewrite Rabs_mult, (Rabs_pos_eq c) by lra. pose proof (SIN_bound y) as [? ?].
    assert (Rabs (sin y) <= 1) by (apply Rabs_le; lra). pose proof (Rabs_pos (sin y)). nra. }
  apply (C02_interior_rows_are_consistent (fun x t => exp (- t) * sin x)
           (fun t => - exp (- t) * sin xj) (fun t => exp (- t) * sin xj)
           (fun y => exp (- t1) * cos y) (fun y => - exp (- t1) * sin y) (fun y => - exp (- t1) * cos y) (fun y => exp (- t1) * sin y)
           xj h t1 dt 1 1 1 Hh Hdt ltac:(lra)).
  - intros t _. auto_derive; [exact I|ring].
  - intros t _. auto_derive; [exact I|ring].
  - intros t Ht'. apply S1. split; [left; apply exp_pos|apply E; lra].
  - intros y _. auto_derive; [exact I|ring].
  - intros y _. auto_derive; [exact I|ring].
  - intros y _. auto_derive; [exact I|ring].
  - intros y _. auto_derive; [exact I|ring].
  - intros y _. apply S1. split; [left; apply exp_pos|apply E; lra].
  - ring.
Qed.
