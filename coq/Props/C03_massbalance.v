(* C03: recovery conserves mass and respects its ceiling.  Theorems (R instance of the model):
   both recovery modes start at zero; the step's exact discrete mass balance (the change of the
   stored total is the backward-Euler face flux) and the resulting monotone stored total; the
   ceiling of in-place recovery.  The size and shrinkage of the gap between the two modes and
   the plateau value are validated numerically along refinement ladders. *)
From Coq Require Import Reals List Lra Lia.
From BBLib Require Import NumSig MinPrinciple Tridiag Interp Reservoir ReservoirThms ConvThms.
Import ListNotations.
Open Scope R_scope.

Theorem C03_flux_recovery_starts_at_zero : forall h_inv fvf times (field : list (list R)), field <> [] ->
  nth 0 (recovery_flux NumR h_inv fvf times field) 1 = 0.
Proof. exact recovery_flux_starts_at_zero. Qed.
Print Assumptions C03_flux_recovery_starts_at_zero.

Theorem C03_inplace_recovery_starts_at_zero : forall (fp : flowprops (T := R)) fvf (field : list (list R)), field <> [] ->
  nsum_l NumR (map (fun m => interp_lin NumR (fp_mscaled fp) (fp_density fp) m) (hd [] field)) <> 0 ->
  nth 0 (recovery_density NumR fp fvf field) 1 = 0.
Proof. exact recovery_density_starts_at_zero. Qed.
Print Assumptions C03_inplace_recovery_starts_at_zero.

Theorem C03_discrete_mass_balance : forall n Kc B U g, Sys n (fun _ => Kc) B U g ->
  nsumf U n = nsumf B n - Kc * (U 1%nat - g).
Proof. exact discrete_mass_balance. Qed.
Print Assumptions C03_discrete_mass_balance.

Theorem C03_stored_total_never_increases : forall n Kc B U g, 0 <= Kc -> Sys n (fun _ => Kc) B U g -> g <= U 1%nat ->
  nsumf U n <= nsumf B n.
Proof. exact stored_total_decreases. Qed.
Print Assumptions C03_stored_total_never_increases.

Theorem C03_inplace_recovery_ceiling : forall (rho : R -> R) lo m_i (init prof : list R),
  (forall a b, a <= b -> rho a <= rho b) -> 0 < rho lo -> length prof = length init -> (1 <= length init)%nat ->
  (forall v, In v init -> v <= m_i) -> (forall v, In v prof -> lo <= v) -> lo <= m_i ->
  0 < lsum (map rho init) ->
  1 - lsum (map rho prof) / lsum (map rho init) <= 1 - rho lo / rho m_i.
Proof. exact inplace_ceiling. Qed.
Print Assumptions C03_inplace_recovery_ceiling.
