(* C02: the part of "converges to the documented diffusion problem" that a theorem can carry
   (DESIGN.md 6/C02): unconditional max-norm stability of the implicit step and the resulting
   error propagation against ANY reference field (Lax-Richtmyer skeleton), uniqueness of the
   discrete solution, exactness of the flux stencil, and the recovery scaling factors.
   Convergence rates against the closed-form Fourier solution and a method-of-lines reference are
   validated numerically along refinement ladders by the check (evidence: validated_only). *)
From Coq Require Import Reals List Lra Lia.
From BBLib Require Import NumSig MinPrinciple Tridiag Reservoir ReservoirThms ConvThms.
From BBRun Require Import Gen_reservoir.
Import ListNotations.
Open Scope R_scope.

Theorem C02_step_is_max_norm_stable : forall n K B B' U W g g' eps, (1 <= n)%nat ->
  (forall j, (1 <= j <= n)%nat -> 0 <= K j) -> Sys n K B U g -> Sys n K B' W g' ->
  Rabs (g - g') <= eps -> (forall j, (1 <= j <= n)%nat -> Rabs (B j - B' j) <= eps) ->
  forall j, (j <= S n)%nat -> Rabs (U j - W j) <= eps.
Proof. exact step_stability. Qed.
Print Assumptions C02_step_is_max_norm_stable.

Theorem C02_error_grows_by_at_most_the_truncation_residual : forall n K Bu Bw U W g tau err, (1 <= n)%nat ->
  (forall j, (1 <= j <= n)%nat -> 0 <= K j) -> Sys n K Bu U g -> Sys n K (fun j => Bw j + tau j) W g ->
  (forall j, (1 <= j <= n)%nat -> Rabs (Bu j - Bw j) <= err) ->
  forall T, (forall j, (1 <= j <= n)%nat -> Rabs (tau j) <= T) ->
  forall j, (j <= S n)%nat -> Rabs (U j - W j) <= err + T.
Proof. exact error_propagation. Qed.
Print Assumptions C02_error_grows_by_at_most_the_truncation_residual.

Theorem C02_flux_stencil_exact_for_quadratics : forall a b c h, h <> 0 ->
  (- (a * (2 * h) ^ 2 + b * (2 * h) + c) + 4 * (a * h ^ 2 + b * h + c) - 3 * (a * 0 ^ 2 + b * 0 + c)) / (2 * h) = b.
Proof. intros. now apply flux_stencil_exact_for_quadratics. Qed.
Print Assumptions C02_flux_stencil_exact_for_quadratics.

Theorem C02_flux_rate_is_the_stencil : forall h_inv (prof : list R),
  flux_rate NumR h_inv prof = (- nth 2 prof 0 + 4 * nth 1 prof 0 - 3 * nth 0 prof 0) * h_inv * (1 / 2).
Proof. exact flux_rate_is_stencil. Qed.
Print Assumptions C02_flux_rate_is_the_stencil.

(* recovery scaling of the translated classes: ideal gas 1 - p_f/p_i, real fluid 1 *)
Theorem C02_recovery_scaling : forall pf pi, fvf_scale_ideal pf pi = 1 - pf / pi /\ fvf_scale_single = 1.
Proof. intros. split; reflexivity. Qed.
Print Assumptions C02_recovery_scaling.
