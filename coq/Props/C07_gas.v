(* C07 (gas clauses): compressibility is the isothermal logarithmic pressure-derivative of the
   gas density, provided the derivative dZ/d(rho) used in the formula is the derivative of the
   equation of state that Z solves; viscosity is positive and increases with density. *)
From Coq Require Import Reals Lra.
From Coquelicot Require Import Coquelicot.
From Interval Require Import Tactic.
From BBLib Require Import PyPrelude Analysis DAK_spec.
From BBRun Require Import Gen_gas.
Open Scope R_scope.

(* ---- 1. what compressibility_DAK computes, in terms of the independent spec ---- *)
Section Code.
  Variable brentq : (R -> R) -> R -> R -> R.
  Variables T p Tpc Ppc : R.
  Let Tr := (T + 45967 / 100) / (Tpc + 45967 / 100).
  Let pr := p / Ppc.
  Let z := z_factor_DAK brentq T p Tpc Ppc.
  Let rho := 27 / 100 * pr / (Tr * z).

  (* the dz_drho expression of the translated code *)
  Definition code_dz :=
    ltac:(let t := eval cbv beta zeta delta [compressibility_DAK] in (compressibility_DAK brentq T p Tpc Ppc) in
          match t with context [Rplus 1 (Rdiv (Rmult _ ?d) _)] => exact d end).

  Lemma code_dz_is_published_derivative : code_dz = dZeos_pub Tr rho.
  Proof.
    unfold code_dz, dZeos_pub, C0pub, C1, C2, C3, A1, A2, A3, A4, A5, A6, A7, A8, A9, A10, A11.
    fold Tr pr z. fold rho. unfold Rdiv. ring.
  Qed.

  Lemma compressibility_code_form :
    compressibility_DAK brentq T p Tpc Ppc
    = (1 / pr - 27 / 100 / (z ^ 2 * Tr) * (dZeos_pub Tr rho / (1 + rho * dZeos_pub Tr rho / z))) / Ppc.
  Proof. rewrite <- code_dz_is_published_derivative. reflexivity. Qed.
End Code.

(* ---- 2. implicit differentiation: for ANY equation of state E and any Z(p) that solves
        Z = E(a p / Z) near p, d ln(density)/dp = 1/p - rho E'/(p Z (1 + rho E'/Z)) ---- *)
Section Implicit.
  Variables (E Zf : R -> R) (a p dZ D K : R).
  Hypothesis Hp : 0 < p.
  Hypothesis HZ : 0 < Zf p.
  Hypothesis HK : 0 < K.
  Let rho := a * p / Zf p.
  Hypothesis Hsolve : locally p (fun q => Zf q = E (a * q / Zf q)).
  Hypothesis HdZ : is_derive Zf p dZ.
  Hypothesis HdE : is_derive E rho D.
  Hypothesis Hnz : 1 + rho * D / Zf p <> 0.

  Lemma chain_rule : dZ = D * (a / Zf p - a * p * dZ / (Zf p) ^ 2).
  Proof.
    assert (Hc : is_derive (fun q => E (a * q / Zf q)) p (D * (a / Zf p - a * p * dZ / (Zf p) ^ 2))).
    { evar_last.
      - apply (is_derive_comp E (fun q => a * q / Zf q)); [exact HdE|].
        auto_derive; [split; [exists dZ; exact HdZ | split; [lra | exact I]]|].
        replace (Derive (fun x : R => Zf x) p) with dZ by (symmetry; apply is_derive_unique; exact HdZ). reflexivity.
      - unfold scal, mult; simpl. unfold mult; simpl. field. lra. }
    transitivity (Derive Zf p); [symmetry; apply is_derive_unique; exact HdZ|].
    transitivity (Derive (fun q => E (a * q / Zf q)) p);
      [apply Derive_ext_loc; exact Hsolve | apply is_derive_unique; exact Hc].
  Qed.

  Theorem dlnrho_dp :
    is_derive (fun q => ln (K * q / Zf q)) p
              (1 / p - rho * D / (p * Zf p * (1 + rho * D / Zf p))).
  Proof.
    pose proof chain_rule as Hc.
    set (s := 1 + rho * D / Zf p) in *.
    assert (Hlin : dZ * s = D * a / Zf p).
    { unfold s, rho.
      transitivity (D * (a / Zf p - a * p * dZ / (Zf p) ^ 2) + dZ * (a * p / Zf p * D / Zf p)).
      - rewrite <- Hc. ring.
      - field. lra. }
    assert (HdZval : dZ = D * a / Zf p / s).
    { apply Rmult_eq_reg_r with s; [|exact Hnz]. rewrite Hlin. field. split; [lra|exact Hnz]. }
    evar_last.
    - auto_derive.
      + split; [exists dZ; exact HdZ|]. split; [lra|]. split; [|exact I].
        apply Rdiv_lt_0_compat; [apply Rmult_lt_0_compat; lra|lra].
      + replace (Derive (fun x : R => Zf x) p) with dZ by (symmetry; apply is_derive_unique; exact HdZ). reflexivity.
    - rewrite HdZval. unfold rho. field. repeat split; try lra; exact Hnz.
  Qed.
End Implicit.

(* ---- 3. viscosity ---- *)
Lemma sutton_bracket_pos t : 105 / 100 <= t <= 3 ->
  0 < 807 / 100 * Rpower t (618 / 1000) - 357 / 100 * exp (- (449 / 1000) * t)
      + 34 / 10 * exp (- (4058 / 1000) * t) + 18 / 100.
Proof. intros. interval. Qed.

Section Visc.
  Variable brentq : (R -> R) -> R -> R -> R.
  Variables T Tpc Ppc sg : R.
  Let Tr := (T + 45967 / 100) / (Tpc + 45967 / 100).
  Hypothesis HTr : 105 / 100 <= Tr <= 3.
  Hypothesis HTpc : 0 < Tpc + 45967 / 100.
  Hypothesis HPpc : 0 < Ppc.
  Hypothesis Hsg : 55 / 100 <= sg <= 12 / 10.
  Hypothesis HT : 80 <= T <= 400.

  Definition sutton_X := 347 / 100 + 1588 / (T + 45967 / 100) + 9 / 10000 * (sg * (28964 / 1000)).
  Definition sutton_Y := 166378 / 100000 - 4679 / 1000000 * sutton_X.
  Definition sutton_xi := 949 / 1000 * pypow ((Tpc + 45967 / 100) / ((sg * (28964 / 1000)) ^ 3 * Ppc ^ 4)) (1 / 6).
  Definition sutton_lp :=
    1 / 100000 * (807 / 100 * pypow Tr (618 / 1000) - 357 / 100 * exp (- (449 / 1000) * Tr)
                  + 34 / 10 * exp (- (4058 / 1000) * Tr) + 18 / 100) / sutton_xi.

  (* viscosity is a fixed increasing function of the gas density *)
  Lemma viscosity_form p :
    viscosity_Sutton brentq T p Tpc Ppc sg
    = sutton_lp * exp (sutton_X * pypow (density_DAK brentq T p Tpc Ppc sg * (16018463 / 1000000 / 1000)) sutton_Y).
  Proof. reflexivity. Qed.

  Lemma sutton_X_pos : 0 < sutton_X /\ 0 < sutton_Y.
  Proof.
    unfold sutton_Y, sutton_X.
    assert (H1 : 0 < 1588 / (T + 45967 / 100) <= 3) by (split; interval).
    split; nra.
  Qed.

  Lemma sutton_lp_pos : 0 < sutton_lp.
  Proof.
    unfold sutton_lp.
    assert (Hxi : 0 < sutton_xi).
    { unfold sutton_xi. apply Rmult_lt_0_compat; [lra|]. apply pypow_gt0.
      apply Rdiv_lt_0_compat; [exact HTpc|]. apply Rmult_lt_0_compat; [|apply pow_lt; exact HPpc].
      apply pow_lt. nra. }
    rewrite pypow_pos by lra.
    pose proof (sutton_bracket_pos Tr HTr).
    apply Rdiv_lt_0_compat; [|exact Hxi]. nra.
  Qed.

  Theorem viscosity_positive p : 0 < viscosity_Sutton brentq T p Tpc Ppc sg.
  Proof. rewrite viscosity_form. apply Rmult_lt_0_compat; [apply sutton_lp_pos|apply exp_pos]. Qed.

  Theorem viscosity_increasing_in_density p1 p2 :
    0 < density_DAK brentq T p1 Tpc Ppc sg < density_DAK brentq T p2 Tpc Ppc sg ->
    viscosity_Sutton brentq T p1 Tpc Ppc sg < viscosity_Sutton brentq T p2 Tpc Ppc sg.
  Proof.
    intros [Hd1 Hd12]. rewrite !viscosity_form.
    destruct sutton_X_pos as [HX HY]. pose proof sutton_lp_pos as Hlp.
    apply Rmult_lt_compat_l; [exact Hlp|]. apply exp_increasing.
    apply Rmult_lt_compat_l; [exact HX|].
    rewrite !pypow_pos by nra. apply Rlt_Rpower_l; [exact HY|]. nra.
  Qed.
End Visc.

Theorem C07_compressibility_uses_published_derivative : forall brentq T p Tpc Ppc,
  let Tr := (T + 45967 / 100) / (Tpc + 45967 / 100) in
  let pr := p / Ppc in
  let z := z_factor_DAK brentq T p Tpc Ppc in
  let rho := 27 / 100 * pr / (Tr * z) in
  compressibility_DAK brentq T p Tpc Ppc
  = (1 / pr - 27 / 100 / (z ^ 2 * Tr) * (dZeos_pub Tr rho / (1 + rho * dZeos_pub Tr rho / z))) / Ppc.
Proof. intros. apply compressibility_code_form. Qed.
Print Assumptions C07_compressibility_uses_published_derivative.

Theorem C07_dz_drho_is_derivative_of_published_eos : forall t r : R, t <> 0 ->
  is_derive (Zeos C0pub t) r (dZeos_pub t r).
Proof. exact dZeos_pub_is_derivative. Qed.
Print Assumptions C07_dz_drho_is_derivative_of_published_eos.

Theorem C07_dlnrho_dp_formula : forall (E Zf : R -> R) (a p dZ D K : R),
  0 < p -> 0 < Zf p -> 0 < K ->
  locally p (fun q => Zf q = E (a * q / Zf q)) -> is_derive Zf p dZ -> is_derive E (a * p / Zf p) D ->
  1 + a * p / Zf p * D / Zf p <> 0 ->
  is_derive (fun q => ln (K * q / Zf q)) p
            (1 / p - a * p / Zf p * D / (p * Zf p * (1 + a * p / Zf p * D / Zf p))).
Proof. intros E Zf a p dZ D K Hp HZ HK Hs HdZ HdE Hnz. exact (dlnrho_dp E Zf a p dZ D K Hp HZ HK Hs HdZ HdE Hnz). Qed.
Print Assumptions C07_dlnrho_dp_formula.

Theorem C07_viscosity_positive : forall brentq T Tpc Ppc sg p,
  105 / 100 <= (T + 45967 / 100) / (Tpc + 45967 / 100) <= 3 -> 0 < Tpc + 45967 / 100 -> 0 < Ppc ->
  55 / 100 <= sg <= 12 / 10 -> 0 < viscosity_Sutton brentq T p Tpc Ppc sg.
Proof. intros. now apply viscosity_positive. Qed.
Print Assumptions C07_viscosity_positive.

Theorem C07_viscosity_increasing_in_density : forall brentq T Tpc Ppc sg p1 p2,
  105 / 100 <= (T + 45967 / 100) / (Tpc + 45967 / 100) <= 3 -> 0 < Tpc + 45967 / 100 -> 0 < Ppc ->
  55 / 100 <= sg <= 12 / 10 -> 80 <= T <= 400 ->
  0 < density_DAK brentq T p1 Tpc Ppc sg < density_DAK brentq T p2 Tpc Ppc sg ->
  viscosity_Sutton brentq T p1 Tpc Ppc sg < viscosity_Sutton brentq T p2 Tpc Ppc sg.
Proof. intros. now apply viscosity_increasing_in_density. Qed.
Print Assumptions C07_viscosity_increasing_in_density.
