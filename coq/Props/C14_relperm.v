(* C14: Brooks-Corey relative permeabilities.  Model: relative_permeabilities regenerated from
   flowproperties.py for one saturation record (validation chain + the three Corey
   expressions); the final `k_rel[k_rel < 0] = 0` clamp is modelled by [clamp0].  A Python
   NaN (negative base under a fractional power) cannot arise because the base is proved >= 0. *)
From Coq Require Import Reals Lra.
From BBLib Require Import PyPrelude.
From BBRun Require Import Gen_flowprops.
Open Scope R_scope.

Definition clamp0 (x : R) : R := if Rlt_dec x 0 then 0 else x.

Record admissible (n_o n_w n_g S_or S_wc S_gc ko kw kg : R) : Prop := {
  adm_no : 1 <= n_o <= 6; adm_nw : 1 <= n_w <= 6; adm_ng : 1 <= n_g <= 6;
  adm_sor : 0 <= S_or <= 1; adm_swc : 0 <= S_wc <= 1; adm_sgc : 0 <= S_gc <= 1;
  adm_ko : 0 <= ko <= 1; adm_kw : 0 <= kw <= 1; adm_kg : 0 <= kg <= 1;
  adm_sum : S_or + S_wc + S_gc < 1 }.

Lemma Rmax3_le a b c m : a <= m -> b <= m -> c <= m -> Rmax a (Rmax b c) <= m.
Proof. intros. apply Rmax_lub; [assumption|apply Rmax_lub; assumption]. Qed.
Lemma Rmin3_ge a b c m : m <= a -> m <= b -> m <= c -> m <= Rmin a (Rmin b c).
Proof. intros. apply Rmin_glb; [assumption|apply Rmin_glb; assumption]. Qed.

Section Accept.
  Variables So Sw Sg n_o n_w n_g S_or S_wc S_gc ko kw kg : R.
  Hypothesis Hadm : admissible n_o n_w n_g S_or S_wc S_gc ko kw kg.
  Hypothesis Hsum : Rabs (So + Sw + Sg - 1) <= 1 / 1000.
  Let d := 1 - S_or - S_wc - S_gc.
  Let u_o := pyclip ((So - S_or) / d) 0 1.
  Let u_w := pyclip ((Sw - S_wc) / d) 0 1.
  Let u_g := pyclip ((Sg - S_gc) / d) 0 1.

  (* an admissible call is accepted and returns the three Corey expressions of the clamped,
     normalised saturations *)
  Lemma accepted :
    relative_permeabilities_row So Sw Sg n_o n_w n_g S_or S_wc S_gc ko kw kg
    = Some (ko * pypow u_o n_o, kw * pypow u_w n_w, kg * pypow u_g n_g).
  Proof.
    destruct Hadm. unfold relative_permeabilities_row.
    destruct (Rlt_dec (1 / 1000) (Rabs (So + Sw + Sg - 1))); [lra|]. cbv iota.
    destruct (Rlt_dec 6 _) as [H|_]; [exfalso; revert H; apply Rle_not_lt; apply Rmax3_le; lra|].
    destruct (Rlt_dec _ 1) as [H|_]; [exfalso; revert H; apply Rle_not_lt; apply Rmin3_ge; lra|].
    destruct (Rlt_dec _ 0) as [H|_]; [exfalso; revert H; apply Rle_not_lt; apply Rmin3_ge; lra|].
    destruct (Rlt_dec 1 _) as [H|_]; [exfalso; revert H; apply Rle_not_lt; apply Rmax3_le; lra|].
    destruct (Rlt_dec _ 0) as [H|_]; [exfalso; revert H; apply Rle_not_lt; apply Rmin3_ge; lra|].
    destruct (Rlt_dec 1 _) as [H|_]; [exfalso; revert H; apply Rle_not_lt; apply Rmax3_le; lra|].
    reflexivity.
  Qed.

  Lemma corey_range k u n : 0 <= k -> 0 <= u <= 1 -> 1 <= n -> 0 <= k * pypow u n <= k.
  Proof.
    intros Hk Hu Hn.
    assert (Hp : 0 <= pypow u n <= 1).
    { split; [apply pypow_nonneg; lra|].
      destruct (Req_EM_T u 0) as [->|Hne]; [rewrite pypow_0_pos by lra; lra|].
      rewrite pypow_pos by lra. unfold Rpower.
      rewrite <- exp_0. destruct (Req_EM_T u 1) as [->|Hn1]; [rewrite ln_1, Rmult_0_r; lra|].
      left. apply exp_increasing. assert (ln u < 0) by (rewrite <- ln_1; apply ln_increasing; lra). nra. }
    split; [apply Rmult_le_pos; lra|]. rewrite <- (Rmult_1_r k) at 2. apply Rmult_le_compat_l; lra.
  Qed.

  Lemma u_range x : 0 <= pyclip x 0 1 <= 1.
  Proof. apply pyclip_range. lra. Qed.

  (* finite, within [0, k_max]; the final clamp is the identity *)
  Theorem kr_range :
    0 <= ko * pypow u_o n_o <= ko /\ 0 <= kw * pypow u_w n_w <= kw /\ 0 <= kg * pypow u_g n_g <= kg
    /\ clamp0 (ko * pypow u_o n_o) = ko * pypow u_o n_o
    /\ clamp0 (kw * pypow u_w n_w) = kw * pypow u_w n_w
    /\ clamp0 (kg * pypow u_g n_g) = kg * pypow u_g n_g.
  Proof.
    destruct Hadm.
    pose proof (corey_range ko u_o n_o ltac:(lra) (u_range _) ltac:(lra)) as H1.
    pose proof (corey_range kw u_w n_w ltac:(lra) (u_range _) ltac:(lra)) as H2.
    pose proof (corey_range kg u_g n_g ltac:(lra) (u_range _) ltac:(lra)) as H3.
    repeat split; try lra; unfold clamp0; destruct (Rlt_dec _ 0); lra.
  Qed.

  Lemma d_pos : 0 < d. Proof. destruct Hadm. unfold d. lra. Qed.

  Lemma clip_zero_below x r : x <= r -> pyclip ((x - r) / d) 0 1 = 0.
  Proof.
    intros H. pose proof d_pos. unfold pyclip, Rmax, Rmin.
    assert ((x - r) / d <= 0).
    { apply Rmult_le_reg_r with d; [lra|]. unfold Rdiv. rewrite Rmult_assoc, Rinv_l by lra. lra. }
    destruct (Rle_dec ((x - r) / d) 0); [|lra]. destruct (Rle_dec 0 1); lra.
  Qed.

  (* exactly zero at or below the phase's residual saturation *)
  Theorem kr_zero_at_or_below_residual :
    (So <= S_or -> ko * pypow u_o n_o = 0) /\ (Sw <= S_wc -> kw * pypow u_w n_w = 0) /\
    (Sg <= S_gc -> kg * pypow u_g n_g = 0).
  Proof.
    destruct Hadm. unfold u_o, u_w, u_g.
    repeat split; intros H; rewrite clip_zero_below by exact H; rewrite pypow_0_pos by lra; ring.
  Qed.
End Accept.

(* non-decreasing in the phase's own saturation *)
Lemma pyclip_mono x y : x <= y -> pyclip x 0 1 <= pyclip y 0 1.
Proof.
  intros H. unfold pyclip, Rmax, Rmin.
  destruct (Rle_dec x 0); destruct (Rle_dec y 0);
    repeat match goal with |- context [Rle_dec ?a ?b] => destruct (Rle_dec a b) end; lra.
Qed.

Lemma pypow_mono u v n : 0 <= u -> u <= v -> 1 <= n -> pypow u n <= pypow v n.
Proof.
  intros Hu Huv Hn.
  destruct (Req_EM_T u 0) as [->|Hne].
  - rewrite pypow_0_pos by lra. apply pypow_nonneg. lra.
  - rewrite !pypow_pos by lra. destruct (Req_EM_T u v) as [->|Hne2]; [lra|].
    left. apply Rlt_Rpower_l; lra.
Qed.

Theorem corey_monotone k d r n s1 s2 : 0 <= k -> 0 < d -> 1 <= n -> s1 <= s2 ->
  k * pypow (pyclip ((s1 - r) / d) 0 1) n <= k * pypow (pyclip ((s2 - r) / d) 0 1) n.
Proof.
  intros Hk Hd Hn Hs. apply Rmult_le_compat_l; [exact Hk|].
  apply pypow_mono; [apply pyclip_range; lra| |exact Hn].
  apply pyclip_mono. unfold Rdiv. apply Rmult_le_compat_r; [left; now apply Rinv_0_lt_compat|lra].
Qed.

(* ---- rejection: each guard of the validation chain ---- *)
Section Reject.
  Variables So Sw Sg n_o n_w n_g S_or S_wc S_gc ko kw kg : R.
  Let call := relative_permeabilities_row So Sw Sg n_o n_w n_g S_or S_wc S_gc ko kw kg.

  Theorem reject_saturation_sum : 1 / 1000 < Rabs (So + Sw + Sg - 1) -> call = None.
  Proof. intros H. unfold call, relative_permeabilities_row. destruct (Rlt_dec _ _); [reflexivity|lra]. Qed.

  Ltac skip_guard := match goal with |- (if ?c then None else _) = None => destruct c; [reflexivity|] end.

  Theorem reject_exponent_above_6 : 6 < n_o \/ 6 < n_w \/ 6 < n_g -> call = None.
  Proof.
    intros H. unfold call, relative_permeabilities_row. skip_guard.
    destruct (Rlt_dec 6 _) as [_|Hn]; [reflexivity|exfalso]. apply Hn.
    pose proof (Rmax_l n_o (Rmax n_g n_w)). pose proof (Rmax_r n_o (Rmax n_g n_w)).
    pose proof (Rmax_l n_g n_w). pose proof (Rmax_r n_g n_w). lra.
  Qed.

  Theorem reject_exponent_below_1 : n_o < 1 \/ n_w < 1 \/ n_g < 1 -> call = None.
  Proof.
    intros H. unfold call, relative_permeabilities_row. do 2 skip_guard.
    destruct (Rlt_dec _ 1) as [_|Hn]; [reflexivity|exfalso]. apply Hn.
    pose proof (Rmin_l n_o (Rmin n_g n_w)). pose proof (Rmin_r n_o (Rmin n_g n_w)).
    pose proof (Rmin_l n_g n_w). pose proof (Rmin_r n_g n_w). lra.
  Qed.

  Theorem reject_negative_residual : S_or < 0 \/ S_wc < 0 \/ S_gc < 0 -> call = None.
  Proof.
    intros H. unfold call, relative_permeabilities_row. do 3 skip_guard.
    destruct (Rlt_dec _ 0) as [_|Hn]; [reflexivity|exfalso]. apply Hn.
    pose proof (Rmin_l S_or (Rmin S_wc S_gc)). pose proof (Rmin_r S_or (Rmin S_wc S_gc)).
    pose proof (Rmin_l S_wc S_gc). pose proof (Rmin_r S_wc S_gc). lra.
  Qed.

  Theorem reject_residual_above_1 : 1 < S_or \/ 1 < S_wc \/ 1 < S_gc -> call = None.
  Proof.
    intros H. unfold call, relative_permeabilities_row. do 4 skip_guard.
    destruct (Rlt_dec 1 _) as [_|Hn]; [reflexivity|exfalso]. apply Hn.
    pose proof (Rmax_l S_or (Rmax S_wc S_gc)). pose proof (Rmax_r S_or (Rmax S_wc S_gc)).
    pose proof (Rmax_l S_wc S_gc). pose proof (Rmax_r S_wc S_gc). lra.
  Qed.

  Theorem reject_negative_endpoint : ko < 0 \/ kw < 0 \/ kg < 0 -> call = None.
  Proof.
    intros H. unfold call, relative_permeabilities_row. do 5 skip_guard.
    destruct (Rlt_dec _ 0) as [_|Hn]; [reflexivity|exfalso]. apply Hn.
    pose proof (Rmin_l ko (Rmin kw kg)). pose proof (Rmin_r ko (Rmin kw kg)).
    pose proof (Rmin_l kw kg). pose proof (Rmin_r kw kg). lra.
  Qed.

  Theorem reject_endpoint_above_1 : 1 < ko \/ 1 < kw \/ 1 < kg -> call = None.
  Proof.
    intros H. unfold call, relative_permeabilities_row. do 6 skip_guard.
    destruct (Rlt_dec 1 _) as [_|Hn]; [reflexivity|exfalso]. apply Hn.
    pose proof (Rmax_l ko (Rmax kw kg)). pose proof (Rmax_r ko (Rmax kw kg)).
    pose proof (Rmax_l kw kg). pose proof (Rmax_r kw kg). lra.
  Qed.
End Reject.

Theorem C14_admissible_call_is_defined_and_within_range :
  forall So Sw Sg n_o n_w n_g S_or S_wc S_gc ko kw kg,
    admissible n_o n_w n_g S_or S_wc S_gc ko kw kg -> Rabs (So + Sw + Sg - 1) <= 1 / 1000 ->
    exists kro krw krg,
      relative_permeabilities_row So Sw Sg n_o n_w n_g S_or S_wc S_gc ko kw kg = Some (kro, krw, krg)
      /\ 0 <= kro <= ko /\ 0 <= krw <= kw /\ 0 <= krg <= kg
      /\ clamp0 kro = kro /\ clamp0 krw = krw /\ clamp0 krg = krg
      /\ (So <= S_or -> kro = 0) /\ (Sw <= S_wc -> krw = 0) /\ (Sg <= S_gc -> krg = 0).
Proof.
  intros So Sw Sg n_o n_w n_g S_or S_wc S_gc ko kw kg Hadm Hsum.
  eexists _, _, _. split; [apply accepted; assumption|].
  pose proof (kr_range So Sw Sg n_o n_w n_g S_or S_wc S_gc ko kw kg Hadm) as R.
  pose proof (kr_zero_at_or_below_residual So Sw Sg n_o n_w n_g S_or S_wc S_gc ko kw kg Hadm) as Z.
  tauto.
Qed.
Print Assumptions C14_admissible_call_is_defined_and_within_range.

Theorem C14_monotone_in_own_saturation : forall k d r n s1 s2, 0 <= k -> 0 < d -> 1 <= n -> s1 <= s2 ->
  k * pypow (pyclip ((s1 - r) / d) 0 1) n <= k * pypow (pyclip ((s2 - r) / d) 0 1) n.
Proof. exact corey_monotone. Qed.
Print Assumptions C14_monotone_in_own_saturation.

Theorem C14_out_of_range_parameters_rejected :
  forall So Sw Sg n_o n_w n_g S_or S_wc S_gc ko kw kg,
    (1 / 1000 < Rabs (So + Sw + Sg - 1)) \/ (6 < n_o \/ 6 < n_w \/ 6 < n_g) \/ (n_o < 1 \/ n_w < 1 \/ n_g < 1)
    \/ (S_or < 0 \/ S_wc < 0 \/ S_gc < 0) \/ (1 < S_or \/ 1 < S_wc \/ 1 < S_gc)
    \/ (ko < 0 \/ kw < 0 \/ kg < 0) \/ (1 < ko \/ 1 < kw \/ 1 < kg) ->
    relative_permeabilities_row So Sw Sg n_o n_w n_g S_or S_wc S_gc ko kw kg = None.
Proof.
  intros So Sw Sg n_o n_w n_g S_or S_wc S_gc ko kw kg [H|[H|[H|[H|[H|[H|H]]]]]].
  - now apply reject_saturation_sum.
  - now apply reject_exponent_above_6.
  - now apply reject_exponent_below_1.
  - now apply reject_negative_residual.
  - now apply reject_residual_above_1.
  - now apply reject_negative_endpoint.
  - now apply reject_endpoint_above_1.
Qed.
Print Assumptions C14_out_of_range_parameters_rejected.

Example C14_admissible_inhabited :
  admissible (3 / 2) 2 (5 / 2) (1 / 10) (2 / 10) (5 / 100) (9 / 10) (8 / 10) 1.
Proof. constructor; lra. Qed.
