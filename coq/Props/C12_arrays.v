(* C12 for array arguments: the array branches of solution_gor_Standing and b_o_Standing (regenerated from
   oil.py in elementwise form with explicit numpy dtypes and store-time casts) return, for every dtype of the
   pressure array - integer ones included - a floating array whose elements are the scalar values; so every
   C12 clause holds element by element for arrays: R_s = R_si at and above the bubble point, R_s
   non-decreasing, B_o rising below the bubble point. *)
From Coq Require Import Reals List Lra.
From BBLib Require Import PyPrelude NumpyDtype.
From BBRun Require Import Gen_gas Gen_oil.
From BBRun Require C12_blackoil.
Import ListNotations.
Open Scope R_scope.

Lemma gor_elem dt T api gg Rsi x :
  solution_gor_Standing_elem dt T api gg Rsi x = solution_gor_Standing T x api gg Rsi.
Proof.
  unfold solution_gor_Standing_elem, solution_gor_Standing; cbv zeta. rewrite !cast_result_F32.
  set (pb := pressure_bubblepoint_Standing T api gg Rsi).
  destruct (Rlt_dec x pb); destruct (Rle_dec pb x); try lra; reflexivity.
Qed.
Lemma Bo_elem dt T api gg Rsi x :
  b_o_Standing_elem dt T api gg Rsi x = b_o_Standing T x api gg Rsi.
Proof.
  unfold b_o_Standing_elem, b_o_Standing; cbv zeta. rewrite !cast_result_F32. rewrite gor_elem.
  set (pb := pressure_bubblepoint_Standing T api gg Rsi).
  destruct (Rlt_dec x pb); destruct (Rle_dec pb x); try lra; reflexivity.
Qed.

Theorem C12_gor_array_initial_at_and_above_bubblepoint : forall dt T api gg Rsi ps,
  Forall (fun p => pressure_bubblepoint_Standing T api gg Rsi <= p) ps ->
  solution_gor_Standing_array dt T api gg Rsi ps = (result_type dt F32, map (fun _ => Rsi) ps)
  /\ is_float (result_type dt F32) = true.
Proof.
  intros dt T api gg Rsi ps H. split; [|apply result_type_F32_is_float].
  unfold solution_gor_Standing_array, solution_gor_Standing_dtype. f_equal.
  induction H as [|p ps Hp _ IH]; [reflexivity|]. cbn [map]. rewrite IH, gor_elem.
  now rewrite C12_blackoil.gor_is_initial.
Qed.
Print Assumptions C12_gor_array_initial_at_and_above_bubblepoint.

Theorem C12_gor_array_inverts_bubblepoint_below : forall dt T api gg Rsi ps, 0 < gg -> 0 < Rsi ->
  Forall (fun p => - (2548 / 100) < p < pressure_bubblepoint_Standing T api gg Rsi) ps ->
  map (fun r => pressure_bubblepoint_Standing T api gg r) (snd (solution_gor_Standing_array dt T api gg Rsi ps)) = ps.
Proof.
  intros dt T api gg Rsi ps Hgg HR H. unfold solution_gor_Standing_array. cbn [snd]. rewrite map_map.
  induction H as [|p ps [Hp1 Hp2] _ IH]; [reflexivity|]. cbn [map]. rewrite IH. f_equal.
  rewrite gor_elem, C12_blackoil.gor_is_below by exact Hp2.
  now apply C12_blackoil.bubblepoint_of_gor.
Qed.
Print Assumptions C12_gor_array_inverts_bubblepoint_below.

Theorem C12_Bo_array_is_scalar_Bo : forall dt T api gg Rsi ps,
  b_o_Standing_array dt T api gg Rsi ps = (result_type dt F32, map (fun p => b_o_Standing T p api gg Rsi) ps)
  /\ is_float (result_type dt F32) = true.
Proof.
  intros. split; [|apply result_type_F32_is_float]. unfold b_o_Standing_array, b_o_Standing_dtype.
  f_equal. apply map_ext. intros. apply Bo_elem.
Qed.
Print Assumptions C12_Bo_array_is_scalar_Bo.
