(* C03, "while frac-face pressure does not rise recovery is non-decreasing in time", ideal reservoir, flux-based
   recovery (the only mode the ideal reservoir has): a theorem for every node count >= 3, every non-decreasing time
   grid and every p_frac <= p_initial.  For the single-phase reservoir the clause is validated numerically only
   (its in-place variant fails at the first step: known finding K4). *)
From Coq Require Import Reals List Lra Lia.
From BBLib Require Import NumSig MinPrinciple Tridiag Interp Reservoir ReservoirThms RecoveryThms.
Import ListNotations.
Open Scope R_scope.

Theorem C03_ideal_recovery_never_decreases : forall dx2 nx nxT pf pi times,
  0 < dx2 -> (3 <= nx)%nat -> 1 <= nxT -> sorted_times times -> 0 <= 1 - pf / pi ->
  nondecreasing_list (id_recovery NumR nxT pf pi times (simulate_ideal NumR nx dx2 times)).
Proof. exact ideal_recovery_nondecreasing. Qed.
Print Assumptions C03_ideal_recovery_never_decreases.

(* the rate that is integrated is non-negative on every non-negative, outward non-decreasing, superharmonic level *)
Theorem C03_flux_rate_nonnegative : forall h_inv prof, 0 <= h_inv -> (3 <= length prof)%nat ->
  nondecr prof -> superharm prof -> 0 <= flux_rate NumR h_inv prof.
Proof. exact flux_rate_nonneg. Qed.
Print Assumptions C03_flux_rate_nonnegative.

(* and any recovery built from non-negative rates over non-decreasing times is non-decreasing *)
Theorem C03_flux_recovery_nondecreasing_from_nonnegative_rates : forall h_inv fvf times field,
  0 <= fvf -> sorted_times times -> Forall (fun prof => 0 <= flux_rate NumR h_inv prof) field ->
  nondecreasing_list (recovery_flux NumR h_inv fvf times field).
Proof. exact recovery_flux_nondecreasing. Qed.
Print Assumptions C03_flux_recovery_nondecreasing_from_nonnegative_rates.

Example C03_recovery_monotone_hypotheses_inhabited :
  sorted_times [0; 1/10; 3/10] /\ 0 <= 1 - 100 / 8000 /\ (3 <= 5)%nat.
Proof. simpl. repeat split; try lra; lia. Qed.
