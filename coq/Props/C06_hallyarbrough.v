(* C06, Hall-Yarbrough routine.  The Newton `while` loop of z_factor_hallyarbrough is not translated as a loop; its
   body (hy_newton_step: residual of the current reduced density y, clamped Newton update) and its result expression
   (hy_zfact) are regenerated from gas.py on every run, and the loop is modelled here with explicit fuel.
   Proved: the clamped update keeps y strictly inside (0, 1) whatever the Newton step does (so no negative base ever
   reaches the fractional power - the defect repaired in c82a443), an upward step covers at most half of the distance to 1 (so
   the iterate cannot land on the last float below 1, where the iteration used to stall for ever - the second repair), and whenever the loop exits it returns a y in (0,1)
   that is one update past a density whose residual is at most 0.001; the returned Z is then positive.
   Not proved: that the loop exits (Newton iteration) and the few-percent agreement with DAK - both validated on a grid. *)
From Coq Require Import Reals Lra.
From BBLib Require Import PyPrelude.
From BBRun Require Import Gen_gas.
Open Scope R_scope.

Theorem C06_hy_update_keeps_density_in_unit_interval : forall p t y, 0 < y < 1 ->
  0 < snd (hy_newton_step p t y) < 1.
Proof.
  intros p t y Hy. unfold hy_newton_step. cbv zeta. cbn [snd].
  match goal with |- context [Rlt_dec ((y + 1) / 2) ?v] => generalize v end. intros yn.
  destruct (Rlt_dec ((y + 1) / 2) yn); [lra|]. destruct (Rle_dec yn 0); lra.
Qed.
Print Assumptions C06_hy_update_keeps_density_in_unit_interval.

(* an upward step never covers more than half of the distance to 1: after k steps from y the iterate is at most 1 - (1-y)/2^k *)
Theorem C06_hy_update_moves_at_most_half_way_up : forall p t y, 0 < y < 1 ->
  1 - snd (hy_newton_step p t y) >= (1 - y) / 2.
Proof.
  intros p t y Hy. unfold hy_newton_step. cbv zeta. cbn [snd].
  match goal with |- context [Rlt_dec ((y + 1) / 2) ?v] => generalize v end. intros yn.
  destruct (Rlt_dec ((y + 1) / 2) yn) as [H|H]; [lra|]. destruct (Rle_dec yn 0); lra.
Qed.
Print Assumptions C06_hy_update_moves_at_most_half_way_up.

(* the two components of the step, as used by the certified evaluations of the implementation's own iterates *)
Theorem C06_hy_step_components : forall p t y,
  fst (hy_newton_step p t y) = hy_residual p t y /\ snd (hy_newton_step p t y) = hy_update p t y.
Proof. intros. split; reflexivity. Qed.
Print Assumptions C06_hy_step_components.

Fixpoint hy_loop (fuel : nat) (p t y fdum : R) : option R :=
  if Rlt_dec (1 / 1000) (Rabs fdum) then
    match fuel with
    | O => None
    | S n => hy_loop n p t (snd (hy_newton_step p t y)) (fst (hy_newton_step p t y))
    end
  else Some y.
Definition hy_model (fuel : nat) (temperature pressure : R) : option R :=
  let t := 1 / temperature in
  match hy_loop fuel pressure t (1 / 1000) 1 with Some y => Some (hy_zfact pressure t y) | None => None end.

Lemma hy_loop_exit : forall fuel p t y f yr, 0 < y < 1 -> hy_loop fuel p t y f = Some yr ->
  0 < yr < 1 /\
  ((Rabs f <= 1 / 1000 /\ yr = y) \/
   exists yp, 0 < yp < 1 /\ Rabs (fst (hy_newton_step p t yp)) <= 1 / 1000 /\ yr = snd (hy_newton_step p t yp)).
Proof.
  induction fuel as [|n IH]; intros p t y f yr Hy H; cbn [hy_loop] in H.
  - destruct (Rlt_dec (1 / 1000) (Rabs f)); [discriminate|]. injection H as <-. split; [exact Hy|left; split; [lra|reflexivity]].
  - destruct (Rlt_dec (1 / 1000) (Rabs f)) as [Hbig|Hsmall].
    + pose proof (C06_hy_update_keeps_density_in_unit_interval p t y Hy) as Hy'.
      destruct (IH p t _ _ yr Hy' H) as [Hr [[Hf E]|[yp [Hyp [Hfp E]]]]].
      * split; [exact Hr|]. right. exists y. split; [exact Hy|]. split; [exact Hf|exact E].
      * split; [exact Hr|]. right. exists yp. auto.
    + injection H as <-. split; [exact Hy|left; split; [lra|reflexivity]].
Qed.

Theorem C06_hy_exit_returns_a_density_one_update_past_a_small_residual : forall fuel T p Z,
  hy_model fuel T p = Some Z ->
  exists y yp, 0 < y < 1 /\ 0 < yp < 1 /\ Z = hy_zfact p (1 / T) y /\
    Rabs (fst (hy_newton_step p (1 / T) yp)) <= 1 / 1000 /\ y = snd (hy_newton_step p (1 / T) yp).
Proof.
  intros fuel T p Z H. unfold hy_model in H. cbv zeta in H.
  destruct (hy_loop fuel p (1 / T) (1 / 1000) 1) as [y|] eqn:E; [|discriminate]. injection H as <-.
  destruct (hy_loop_exit fuel p (1 / T) (1 / 1000) 1 y ltac:(lra) E) as [Hy [[Hf _]|[yp [Hyp [Hfp Ey]]]]].
  - rewrite Rabs_R1 in Hf. lra.
  - exists y, yp. repeat split; try lra; assumption.
Qed.
Print Assumptions C06_hy_exit_returns_a_density_one_update_past_a_small_residual.

Theorem C06_hy_result_positive : forall fuel T p Z, 0 < T -> 0 < p -> hy_model fuel T p = Some Z -> 0 < Z.
Proof.
  intros fuel T p Z HT Hp H.
  destruct (C06_hy_exit_returns_a_density_one_update_past_a_small_residual fuel T p Z H) as [y [yp [Hy [_ [-> _]]]]].
  unfold hy_zfact. apply Rdiv_lt_0_compat; [|lra].
  assert (0 < 1 / T) by (apply Rdiv_lt_0_compat; lra).
  apply Rmult_lt_0_compat; [apply Rmult_lt_0_compat; [apply Rmult_lt_0_compat; lra|lra]|apply exp_pos].
Qed.
Print Assumptions C06_hy_result_positive.
