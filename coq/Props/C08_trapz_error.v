(* C08, "agree ... to quadrature accuracy": the table routes (stand-alone transform = builder's column, C08_pseudopressure)
   against the exact integral of 2p/(mu Z).  If viscosity and Z columns are samples of functions mu(p), Z(p) and the
   integrand g(p) = 2p/(mu(p) Z(p)) has an antiderivative G and |g''| <= M on the table's range, the k-th table entry
   differs from G(p_k) - G(p_0) by at most the running sum of M (p_{i+1} - p_i)^3 / 12 (for the 10-psi builder grid:
   M * 1000/12 per row, i.e. M (p_k - p_0) 100/12).  The quadrature route is the oracle for G(p) - G(p_std)
   (C08_hussainy_is_quadrature_of_2p_over_muZ), so the three routes agree on differences up to that sum plus the
   quadrature tolerance.  M itself is not derived for the Sutton / DAK functions: the check measures the agreement. *)
From Coq Require Import Reals List Lra Lia.
From Coquelicot Require Import Coquelicot.
From BBLib Require Import PyPrelude Trapz Truncation TrapzError.
From BBRun Require Import Gen_gas Gen_fluid.
Import ListNotations.
Open Scope R_scope.

Lemma sampled_integrand (mu Z : R -> R) : forall P,
  vdiv (smul 2 P) (vmul (map mu P) (map Z P)) = map (fun p => 2 * p / (mu p * Z p)) P.
Proof. induction P as [|p Pt IH]; [reflexivity|]. cbn [map]. rewrite <- IH. reflexivity. Qed.

Theorem C08_trapezoid_cell_error : forall (F f f1 f2 : R -> R) a h M, 0 <= h ->
  (forall y, a <= y <= a + h -> is_derive F y (f y)) ->
  (forall y, a <= y <= a + h -> is_derive f y (f1 y)) ->
  (forall y, a <= y <= a + h -> is_derive f1 y (f2 y)) ->
  (forall y, a <= y <= a + h -> Rabs (f2 y) <= M) ->
  Rabs (F (a + h) - F a - h * (f a + f (a + h)) / 2) <= M * h ^ 3 / 12.
Proof. exact trapezoid_cell_error. Qed.
Print Assumptions C08_trapezoid_cell_error.

Theorem C08_table_route_is_within_trapezoid_error_of_the_integral :
  forall (mu Z G g1 g2 : R -> R) lo hi M P,
  (forall p, lo <= p <= hi -> is_derive G p (2 * p / (mu p * Z p))) ->
  (forall p, lo <= p <= hi -> is_derive (fun p => 2 * p / (mu p * Z p)) p (g1 p)) ->
  (forall p, lo <= p <= hi -> is_derive g1 p (g2 p)) ->
  (forall p, lo <= p <= hi -> Rabs (g2 p) <= M) ->
  sorted_le P -> List.Forall (fun v => lo <= v <= hi) P ->
  match pseudopressure P (map mu P) (map Z P) with
  | [] => True
  | first :: rest => first = 0 /\ err_within G (G (hd 0 P)) M 0 P rest
  end.
Proof.
  intros mu Z G g1 g2 lo hi M P D0 D1 D2 B2 Hs Hr.
  change (pseudopressure P (map mu P) (map Z P)) with (cumtrapz (vdiv (smul 2 P) (vmul (map mu P) (map Z P))) P). rewrite sampled_integrand.
  apply (cumtrapz_error G (fun p => 2 * p / (mu p * Z p)) g1 g2 lo hi M D0 D1 D2 B2 P Hs Hr).
Qed.
Print Assumptions C08_table_route_is_within_trapezoid_error_of_the_integral.

(* non-vacuity: constant viscosity and Z (ideal gas): g = 2p/c, G = p^2/c, g'' = 0: the table is exact *)
Example C08_trapezoid_exact_for_ideal_gas : forall P, sorted_le P -> List.Forall (fun v => 0 <= v <= 20000) P ->
  match pseudopressure P (map (fun _ => 2 / 100) P) (map (fun _ => 1) P) with
  | [] => True
  | first :: rest => first = 0 /\ err_within (fun p => p ^ 2 / (2 / 100 * 1)) ((hd 0 P) ^ 2 / (2 / 100 * 1)) 0 0 P rest
  end.
Proof.
  intros P Hs Hr.
  apply (C08_table_route_is_within_trapezoid_error_of_the_integral (fun _ => 2 / 100) (fun _ => 1)
           (fun p => p ^ 2 / (2 / 100 * 1)) (fun _ => 2 / (2 / 100 * 1)) (fun _ => 0) 0 20000 0 P); try assumption.
  - intros p _. auto_derive; [exact I|field].
  - intros p _. auto_derive; [exact I|field].
  - intros p _. auto_derive; [exact I|ring].
  - intros p _. rewrite Rabs_R0. lra.
Qed.
