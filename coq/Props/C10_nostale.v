(* C10: results always reflect the most recent simulation.  Model: Lib/ObjectSM.v -- the
   attribute bookkeeping of the reservoir classes over uninterpreted numerics; the theorems
   hold for every call history of every length. *)
From Coq Require Import List.
From BBLib Require Import ObjectSM.
Import ListNotations.

Theorem C10_no_stale_state :
  forall (Grid Sched Field Rec Curve : Type) (sim : Grid -> Field) (simS : Grid -> Sched -> Field)
         (rf rfd : Grid -> Field -> Rec) (interp : Grid -> Rec -> Curve)
         (pre : list (op Grid Sched)) (o : op Grid Sched) (post : list (op Grid Sched)),
    is_sim _ _ o = true ->
    fst (run _ _ _ _ _ sim simS rf rfd interp (fresh _ _ _) (pre ++ o :: post))
      = fst (run _ _ _ _ _ sim simS rf rfd interp (fresh _ _ _) (o :: post)) /\
    skipn (length pre) (snd (run _ _ _ _ _ sim simS rf rfd interp (fresh _ _ _) (pre ++ o :: post)))
      = snd (run _ _ _ _ _ sim simS rf rfd interp (fresh _ _ _) (o :: post)).
Proof. intros. now apply history_suffix. Qed.
Print Assumptions C10_no_stale_state.

Theorem C10_repeat_same :
  forall (Grid Sched Field Rec Curve : Type) (sim : Grid -> Field) (simS : Grid -> Sched -> Field)
         (rf rfd : Grid -> Field -> Rec) (interp : Grid -> Rec -> Curve) s o,
    let '(s1, y1) := step _ _ _ _ _ sim simS rf rfd interp s o in
    let '(s2, y2) := step _ _ _ _ _ sim simS rf rfd interp s1 o in
    y2 = y1 /\ (is_sim _ _ o = true -> s2 = s1).
Proof. intros. apply repeat_same. Qed.
Print Assumptions C10_repeat_same.

(* non-vacuity / the history of the property text: second simulate then interpolator *)
Example C10_two_simulations :
  sym_run [[0; 1]; [2]; [0; 2]; [4]] = [[0]; [1; 0; 1; 1; 0]; [0]; [2; 2; 0; 2; 2; 0]; [2]; [2; 0]; [0; 2; 2; 0]].
Proof. reflexivity. Qed.

(* a simulate call that raises (a frac-face schedule of the wrong length, a pressure outside the table) is invisible: the final
   state and every other output of a history are those of the history with the rejected calls removed *)
Theorem C10_rejected_calls_are_invisible :
  forall (Grid Sched Field Rec Curve : Type) (sim : Grid -> Field) (simS : Grid -> Sched -> Field)
         (rf rfd : Grid -> Field -> Rec) (interp : Grid -> Rec -> Curve) (ops : list (op Grid Sched)) s,
    fst (run _ _ _ _ _ sim simS rf rfd interp s ops)
      = fst (run _ _ _ _ _ sim simS rf rfd interp s (filter (fun o => negb (is_bad _ _ o)) ops)) /\
    filter (not_rej _ _) (snd (run _ _ _ _ _ sim simS rf rfd interp s ops))
      = snd (run _ _ _ _ _ sim simS rf rfd interp s (filter (fun o => negb (is_bad _ _ o)) ops)).
Proof. intros. apply rejected_calls_are_invisible. Qed.
Print Assumptions C10_rejected_calls_are_invisible.

Example C10_rejected_simulate_keeps_the_earlier_run :
  sym_run [[0; 1]; [2]; [5; 2]; [2]; [4]]
    = [[0]; [1; 0; 1; 1; 0]; [8]; [1; 0; 1; 1; 0]; [2; 1; 0; 1; 1; 0]; [1]; [1; 0]; [0; 1; 1; 0]] /\
  sym_run [[5; 2]; [2]] = [[8]; [9]; []; []; []].
Proof. split; reflexivity. Qed.
