(* C04 / C01: what the regenerated time loops do with the iterative solver's answer.
   Gen_reservoir.{single,ideal}_falls_back is the `if` test after the bicgstab call, as a function of the
   convergence flag and of the outcome of _is_solved; Gen_reservoir.is_solved is that function's comparison,
   as a function of ||A x - b|| and ||b||.  Tie to the hand model: Lib/SolverOracle.accept. *)
From Coq Require Import Reals List Lra Lia ZArith Bool.
From BBLib Require Import NumSig Tridiag Reservoir SolverOracle.
From BBRun Require Import Gen_reservoir.
Import ListNotations.
Open Scope R_scope.

(* the iterate is kept exactly when the solver reported success AND its true residual passed the test *)
Theorem C04_single_iterate_kept_iff : forall info solved,
  single_falls_back info solved = false <-> (info = 0%Z /\ solved = true).
Proof.
  intros info solved. unfold single_falls_back.
  destruct (Z.eqb_spec info 0) as [E|E]; destruct solved; cbn; split; intros H;
    try discriminate; try (split; [assumption|reflexivity]); try reflexivity; destruct H as [H1 H2]; try discriminate; contradiction.
Qed.
Print Assumptions C04_single_iterate_kept_iff.

Theorem C04_ideal_iterate_kept_iff : forall info solved,
  ideal_falls_back info solved = false <-> (info = 0%Z /\ solved = true).
Proof.
  intros info solved. unfold ideal_falls_back.
  destruct (Z.eqb_spec info 0) as [E|E]; destruct solved; cbn; split; intros H;
    try discriminate; try (split; [assumption|reflexivity]); try reflexivity; destruct H as [H1 H2]; try discriminate; contradiction.
Qed.
Print Assumptions C04_ideal_iterate_kept_iff.

(* the regenerated decision is the hand model's [accept] *)
Theorem C04_regenerated_decision_is_model_accept :
  forall (solve : list (R * R * R) -> list R -> list R * nat) (direct : list (R * R * R) -> list R -> list R)
         (check : list (R * R * R) -> list R -> list R -> bool) rows b,
    accept solve direct check rows b =
    (let '(x, info) := solve rows b in
     if single_falls_back (Z.of_nat info) (check rows b x) then direct rows b else x).
Proof.
  intros solve direct check rows b. unfold accept. destruct (solve rows b) as [x [|k]].
  - unfold single_falls_back. cbn. destruct (check rows b x); reflexivity.
  - unfold single_falls_back. replace (Z.eqb (Z.of_nat (S k)) 0) with false by (symmetry; apply Z.eqb_neq; lia). reflexivity.
Qed.
Print Assumptions C04_regenerated_decision_is_model_accept.

(* the accepted true residual is relative to the right-hand side (no absolute term: a zero right-hand side
   admits only a zero residual) and at rounding level: at most 1e-9 ||b||, the tolerance the check applies *)
Theorem C04_accepted_residual_is_relative_and_small : forall res_norm b_norm, 0 <= b_norm ->
  is_solved res_norm b_norm = true -> res_norm <= / 1000000000 * b_norm.
Proof.
  intros r bn Hb. unfold is_solved. destruct (Rle_dec _ _) as [H|H]; [intros _; nra|discriminate].
Qed.
Print Assumptions C04_accepted_residual_is_relative_and_small.

Corollary C04_zero_rhs_admits_only_zero_residual : forall res_norm, 0 <= res_norm ->
  is_solved res_norm 0 = true -> res_norm = 0.
Proof.
  intros r Hr H. apply C04_accepted_residual_is_relative_and_small in H; [|lra]. lra.
Qed.
Print Assumptions C04_zero_rhs_admits_only_zero_residual.

(* the solver is asked for a residual relative to the right-hand side and at least as tight as what is accepted *)
Theorem C04_solver_is_asked_for_rounding_level : 
  0 <= single_solver_atol <= / 1000000000 /\ 0 < single_solver_rtol <= / 1000000000 /\
  0 <= ideal_solver_atol <= / 1000000000 /\ 0 < ideal_solver_rtol <= / 1000000000.
Proof. unfold single_solver_atol, single_solver_rtol, ideal_solver_atol, ideal_solver_rtol. lra. Qed.
Print Assumptions C04_solver_is_asked_for_rounding_level.

(* non-vacuity: an exact solution passes the test, a residual of 1e-8 ||b|| does not *)
Example exact_solution_accepted : is_solved 0 1 = true.
Proof. unfold is_solved. destruct (Rle_dec _ _) as [H|H]; [reflexivity|exfalso; apply H; lra]. Qed.
Example loose_solution_rejected : is_solved (/ 100000000) 1 = false.
Proof. unfold is_solved. destruct (Rle_dec _ _) as [H|H]; [exfalso; lra|reflexivity]. Qed.

(* ---------------- from the residual test to the ERROR of a stored level (max norm) ----------------
   The step matrices are M-matrices with unit row sums except at the frac face (MinPrinciple.Sys: rows 1..n, Dirichlet value g
   at node 0, mirror at node n+1), so their inverses do not amplify in the max norm: a level V whose residual against the step
   system is rho (V solves the system with right-hand side B + rho) differs from the exact update U by at most max |rho|.
   With the regenerated test (largest entries since 3794250): an accepted iterate is within 1e-9 max|b| of the exact update -
   "linear-solver error never competes with discretisation error". *)
From BBLib Require MinPrinciple.

Theorem C04_residual_bounds_the_error_of_a_stored_level :
  forall n (K B U V rho : nat -> R) g eps, (1 <= n)%nat ->
    (forall j, (1 <= j <= n)%nat -> 0 <= K j) ->
    MinPrinciple.Sys n K B U g ->
    MinPrinciple.Sys n K (fun j => B j + rho j) V g ->
    (forall j, (1 <= j <= n)%nat -> Rabs (rho j) <= eps) ->
    forall j, (j <= S n)%nat -> Rabs (U j - V j) <= eps.
Proof.
  intros n K B U V rho g eps Hn HK [U0 [Um Ur]] [V0 [Vm Vr]] Hrho j Hj.
  assert (Heps : 0 <= eps).
  { eapply Rle_trans; [apply Rabs_pos|apply (Hrho 1%nat)]. lia. }
  assert (SD : MinPrinciple.Sys n K (fun i => - rho i) (fun i => U i - V i) 0).
  { split; [lra|]. split; [lra|]. intros i Hi. specialize (Ur i Hi). specialize (Vr i Hi).
    unfold MinPrinciple.Row in *. lra. }
  assert (Hb : forall i, (1 <= i <= n)%nat -> - eps <= - rho i <= eps).
  { intros i Hi. specialize (Hrho i Hi). unfold Rabs in Hrho. destruct (Rcase_abs (rho i)); lra. }
  pose proof (MinPrinciple.step_lower n Hn K (fun i => - rho i) (fun i => U i - V i) 0 HK SD (- eps) ltac:(lra)
                ltac:(intros i Hi; apply Hb, Hi) j Hj) as L.
  pose proof (MinPrinciple.step_upper n K (fun i => - rho i) (fun i => U i - V i) 0 eps Hn HK SD ltac:(lra)
                ltac:(intros i Hi; apply Hb, Hi) j Hj) as Up.
  cbn beta in L, Up. unfold Rabs. destruct (Rcase_abs (U j - V j)); lra.
Qed.
Print Assumptions C04_residual_bounds_the_error_of_a_stored_level.

Theorem C04_accepted_iterate_is_close_to_the_exact_update :
  forall n (K B U V rho : nat -> R) g res_norm b_norm, (1 <= n)%nat -> 0 <= b_norm ->
    (forall j, (1 <= j <= n)%nat -> 0 <= K j) ->
    MinPrinciple.Sys n K B U g ->
    MinPrinciple.Sys n K (fun j => B j + rho j) V g ->
    (forall j, (1 <= j <= n)%nat -> Rabs (rho j) <= res_norm) ->        (* res_norm = max |A V - b| *)
    is_solved res_norm b_norm = true ->                                   (* the code's test passed *)
    forall j, (j <= S n)%nat -> Rabs (U j - V j) <= / 1000000000 * b_norm.
Proof.
  intros n K B U V rho g res_norm b_norm Hn Hb HK SU SV Hrho Hacc j Hj.
  apply C04_accepted_residual_is_relative_and_small in Hacc; [|exact Hb].
  apply (C04_residual_bounds_the_error_of_a_stored_level n K B U V rho g (/ 1000000000 * b_norm) Hn HK SU SV); [|exact Hj].
  intros i Hi. eapply Rle_trans; [apply Hrho, Hi|exact Hacc].
Qed.
Print Assumptions C04_accepted_iterate_is_close_to_the_exact_update.

(* C01's "up to rounding-level error of the linear solve", for what the loop accepts: the exact update lies between the smallest and
   the largest of (frac-face value, previous level's entries) - the discrete maximum principle - and the accepted iterate is within
   1e-9 max|b| of it at every node *)
Theorem C01_accepted_iterate_obeys_the_maximum_principle_up_to_the_accepted_residual :
  forall n (K B U V rho : nat -> R) g lo hi res_norm b_norm, (1 <= n)%nat -> 0 <= b_norm ->
    (forall j, (1 <= j <= n)%nat -> 0 <= K j) ->
    MinPrinciple.Sys n K B U g ->
    MinPrinciple.Sys n K (fun j => B j + rho j) V g ->
    (forall j, (1 <= j <= n)%nat -> Rabs (rho j) <= res_norm) ->
    is_solved res_norm b_norm = true ->
    lo <= g <= hi -> (forall j, (1 <= j <= n)%nat -> lo <= B j <= hi) ->
    forall j, (j <= S n)%nat -> lo - / 1000000000 * b_norm <= V j <= hi + / 1000000000 * b_norm.
Proof.
  intros n K B U V rho g lo hi res_norm b_norm Hn Hb HK SU SV Hrho Hacc Hg HB j Hj.
  pose proof (C04_accepted_iterate_is_close_to_the_exact_update n K B U V rho g res_norm b_norm Hn Hb HK SU SV Hrho Hacc j Hj) as Hd.
  pose proof (MinPrinciple.step_lower n Hn K B U g HK SU lo ltac:(lra) ltac:(intros i Hi; apply HB, Hi) j Hj) as L.
  pose proof (MinPrinciple.step_upper n K B U g hi Hn HK SU ltac:(lra) ltac:(intros i Hi; apply HB, Hi) j Hj) as Up.
  unfold Rabs in Hd. destruct (Rcase_abs (U j - V j)); lra.
Qed.
Print Assumptions C01_accepted_iterate_obeys_the_maximum_principle_up_to_the_accepted_residual.
