(* C04 / C01: what the regenerated time loops do with the iterative solver's answer.
   Gen_reservoir.{single,ideal}_falls_back is the `if` test after the bicgstab call, as a function of the
   convergence flag and of the outcome of _is_solved; Gen_reservoir.is_solved is that function's comparison,
   as a function of ||A x - b|| and ||b||.  Tie to the hand model: Lib/SolverOracle.accept. *)
From Coq Require Import Reals List Lra Lia ZArith Bool.
From BBLib Require Import NumSig Tridiag Reservoir SolverOracle.
From BBRun Require Import Gen_reservoir.
Import ListNotations.
Open Scope R_scope.

(* the iterate is kept exactly when the solver reported success AND its true residual passed the test *)
Theorem C04_single_iterate_kept_iff : forall info solved,
  single_falls_back info solved = false <-> (info = 0%Z /\ solved = true).
Proof.
  intros info solved. unfold single_falls_back.
  destruct (Z.eqb_spec info 0) as [E|E]; destruct solved; cbn; split; intros H;
    try discriminate; try (split; [assumption|reflexivity]); try reflexivity; destruct H as [H1 H2]; try discriminate; contradiction.
Qed.
Print Assumptions C04_single_iterate_kept_iff.

Theorem C04_ideal_iterate_kept_iff : forall info solved,
  ideal_falls_back info solved = false <-> (info = 0%Z /\ solved = true).
Proof.
  intros info solved. unfold ideal_falls_back.
  destruct (Z.eqb_spec info 0) as [E|E]; destruct solved; cbn; split; intros H;
    try discriminate; try (split; [assumption|reflexivity]); try reflexivity; destruct H as [H1 H2]; try discriminate; contradiction.
Qed.
Print Assumptions C04_ideal_iterate_kept_iff.

(* the regenerated decision is the hand model's [accept] *)
Theorem C04_regenerated_decision_is_model_accept :
  forall (solve : list (R * R * R) -> list R -> list R * nat) (direct : list (R * R * R) -> list R -> list R)
         (check : list (R * R * R) -> list R -> list R -> bool) rows b,
    accept solve direct check rows b =
    (let '(x, info) := solve rows b in
     if single_falls_back (Z.of_nat info) (check rows b x) then direct rows b else x).
Proof.
  intros solve direct check rows b. unfold accept. destruct (solve rows b) as [x [|k]].
  - unfold single_falls_back. cbn. destruct (check rows b x); reflexivity.
  - unfold single_falls_back. replace (Z.eqb (Z.of_nat (S k)) 0) with false by (symmetry; apply Z.eqb_neq; lia). reflexivity.
Qed.
Print Assumptions C04_regenerated_decision_is_model_accept.

(* the accepted true residual is relative to the right-hand side (no absolute term: a zero right-hand side
   admits only a zero residual) and at rounding level: at most 1e-9 ||b||, the tolerance the check applies *)
Theorem C04_accepted_residual_is_relative_and_small : forall res_norm b_norm, 0 <= b_norm ->
  is_solved res_norm b_norm = true -> res_norm <= / 1000000000 * b_norm.
Proof.
  intros r bn Hb. unfold is_solved. destruct (Rle_dec _ _) as [H|H]; [intros _; nra|discriminate].
Qed.
Print Assumptions C04_accepted_residual_is_relative_and_small.

Corollary C04_zero_rhs_admits_only_zero_residual : forall res_norm, 0 <= res_norm ->
  is_solved res_norm 0 = true -> res_norm = 0.
Proof.
  intros r Hr H. apply C04_accepted_residual_is_relative_and_small in H; [|lra]. lra.
Qed.
Print Assumptions C04_zero_rhs_admits_only_zero_residual.

(* the solver is asked for a residual relative to the right-hand side and at least as tight as what is accepted *)
Theorem C04_solver_is_asked_for_rounding_level : 
  0 <= single_solver_atol <= / 1000000000 /\ 0 < single_solver_rtol <= / 1000000000 /\
  0 <= ideal_solver_atol <= / 1000000000 /\ 0 < ideal_solver_rtol <= / 1000000000.
Proof. unfold single_solver_atol, single_solver_rtol, ideal_solver_atol, ideal_solver_rtol. lra. Qed.
Print Assumptions C04_solver_is_asked_for_rounding_level.

(* non-vacuity: an exact solution passes the test, a residual of 1e-8 ||b|| does not *)
Example exact_solution_accepted : is_solved 0 1 = true.
Proof. unfold is_solved. destruct (Rle_dec _ _) as [H|H]; [reflexivity|exfalso; apply H; lra]. Qed.
Example loose_solution_rejected : is_solved (/ 100000000) 1 = false.
Proof. unfold is_solved. destruct (Rle_dec _ _) as [H|H]; [exfalso; lra|reflexivity]. Qed.
