(* C18: what fit_production_pressure hands to the optimiser, on definitions regenerated from forecast_pressure.py (statement for
   statement; fails closed): the objective is the hand model's [objective] (Lib/FitPressure.v), the row filter and the cumulative
   production are the hand model's, and the DECLARED limits of the three parameters are the ones the property names - so that
   "the optimiser keeps every parameter inside its declared limits" (lmfit's contract, validated on every run) gives
   "initial pressure at least the highest frac-face pressure and at most the stated maximum". *)
From Coq Require Import Reals List Lra Lia Arith Bool.
From BBLib Require Import NumSig Tridiag Interp Reservoir FitPressure.
From BBRun Require Import Gen_fitpressure.
Import ListNotations.
Open Scope R_scope.

(* ---------------- the objective *)
Theorem C18_regenerated_objective_is_the_model_objective :
  forall (tb : table (T := R)) eighty days production pf tau M p_init,
    objective NumR tb eighty days production pf tau M p_init =
    match fp_init NumR tb p_init with
    | None => None
    | Some fp =>
        match sp_simulate NumR fp obj_nodes eighty (obj_scaled_time days tau) pf with
        | None => None
        | Some field => Some (obj_mismatch M (sp_recovery NumR fp eighty false (obj_scaled_time days tau) field) production)
        end
    end.
Proof. intros. reflexivity. Qed.
Print Assumptions C18_regenerated_objective_is_the_model_objective.

Theorem C18_objective_uses_the_trial_pressure_for_both_constructor_pressures : forall p,
  obj_constructor_pressures p = (p, p) /\ obj_nodes = 80%nat.
Proof. intros. split; reflexivity. Qed.
Print Assumptions C18_objective_uses_the_trial_pressure_for_both_constructor_pressures.

(* ---------------- data preparation *)
Theorem C18_regenerated_row_filter_is_the_model_filter : forall r, fpp_keep_row r = keep_row NumR r.
Proof.
  intros [g [p|]]; unfold fpp_keep_row, keep_row; cbn [fst snd].
  - cbn. unfold Rltb. destruct (Rlt_dec 0 g); reflexivity.
  - destruct (Rlt_dec 0 g); reflexivity.
Qed.
Print Assumptions C18_regenerated_row_filter_is_the_model_filter.

Lemma fpp_cumsum_from_is_model : forall l acc, fpp_cumsum_from acc l = cumsum_from NumR acc l.
Proof. induction l as [|x t IH]; intros acc; [reflexivity|]. cbn [fpp_cumsum_from cumsum_from]. simpl nadd. now rewrite IH. Qed.

Theorem C18_regenerated_cumulative_is_the_model_cumsum : forall gas, fpp_cumulative gas = cumsum NumR gas.
Proof. intros. unfold fpp_cumulative, cumsum. simpl n0. apply fpp_cumsum_from_is_model. Qed.
Print Assumptions C18_regenerated_cumulative_is_the_model_cumsum.

Lemma fpp_time_nth : forall n j, (j < n)%nat -> nth j (fpp_time n) 0 = INR j.
Proof.
  intros n j Hj. unfold fpp_time. rewrite (nth_indep _ 0 (INR 0)) by (rewrite map_length, seq_length; exact Hj).
  rewrite map_nth. now rewrite seq_nth.
Qed.

(* re-indexed time: 0, 1, 2, ... (one unit per kept row, whatever the Days column says) *)
Theorem C18_time_is_the_row_index : forall n j, (j < n)%nat -> nth j (fpp_time n) 0 = INR j.
Proof. exact fpp_time_nth. Qed.
Print Assumptions C18_time_is_the_row_index.

(* ---------------- declared limits *)
Theorem C18_declared_tau_limits : forall n, (1 <= n)%nat ->
  fpp_tau n = (1000, 30, 2 * INR (n - 1)).
Proof.
  intros n Hn. unfold fpp_tau. rewrite fpp_time_nth by lia. f_equal. ring.
Qed.
Print Assumptions C18_declared_tau_limits.

Theorem C18_declared_resource_limits : forall cum inplace_max,
  fpp_M cum inplace_max = (last cum 0, nth (length cum - 2) cum 0, inplace_max).
Proof. reflexivity. Qed.
Print Assumptions C18_declared_resource_limits.

Lemma fold_max_ge_all : forall (l : list R) d x, In x l -> x <= fold_right Rmax d l.
Proof.
  induction l as [|a t IH]; intros d x Hx; [contradiction|].
  cbn [fold_right]. destruct Hx as [->|Hx]; [apply Rmax_l|].
  eapply Rle_trans; [apply (IH d x Hx)|apply Rmax_r].
Qed.

Lemma fold_max_in : forall (l : list R) d, fold_right Rmax d l = d \/ In (fold_right Rmax d l) l.
Proof.
  induction l as [|a t IH]; intros d; [now left|].
  cbn [fold_right]. destruct (Rle_dec a (fold_right Rmax d t)) as [H|H].
  - rewrite Rmax_right by exact H. destruct (IH d) as [E|E]; [left; exact E|right; right; exact E].
  - rewrite Rmax_left by lra. right. left. reflexivity.
Qed.

(* the declared lower limit of the initial pressure is the HIGHEST frac-face pressure of the (filtered, smoothed) history,
   the declared upper limit is the stated maximum, the starting value the caller's guess *)
Theorem C18_declared_initial_pressure_limits : forall guess pf pmax, pf <> [] ->
  let '(v, lo, hi) := fpp_p_initial guess pf pmax in
  v = guess /\ hi = pmax /\ In lo pf /\ forall x, In x pf -> x <= lo.
Proof.
  intros guess pf pmax Hne. unfold fpp_p_initial. repeat split.
  - destruct pf as [|a t]; [contradiction|]. cbn [hd].
    destruct (fold_max_in (a :: t) a) as [E|E]; [rewrite E; left; reflexivity|exact E].
  - intros x Hx. now apply fold_max_ge_all.
Qed.
Print Assumptions C18_declared_initial_pressure_limits.

(* hence, for an optimiser that keeps each parameter inside its declared limits: *)
Theorem C18_fitted_initial_pressure_between_highest_fracface_pressure_and_stated_maximum :
  forall guess pf pmax p_fit, pf <> [] ->
    snd (fst (fpp_p_initial guess pf pmax)) <= p_fit <= snd (fpp_p_initial guess pf pmax) ->
    (forall x, In x pf -> x <= p_fit) /\ p_fit <= pmax.
Proof.
  intros guess pf pmax p_fit Hne [Hlo Hhi].
  pose proof (C18_declared_initial_pressure_limits guess pf pmax Hne) as H.
  unfold fpp_p_initial in *. cbn [fst snd] in *. destruct H as (_ & _ & _ & Hall).
  split; [intros x Hx; eapply Rle_trans; [apply Hall, Hx|exact Hlo]|exact Hhi].
Qed.
Print Assumptions C18_fitted_initial_pressure_between_highest_fracface_pressure_and_stated_maximum.

(* non-vacuity *)
Example limits_of_a_small_history :
  fpp_p_initial 7500 [3000; 4200; 1500] 6500 = (7500, 4200, 6500) /\ fpp_tau 40 = (1000, 30, 2 * INR 39).
Proof.
  split; [|apply C18_declared_tau_limits; lia].
  unfold fpp_p_initial. cbn [fold_right hd]. repeat f_equal.
  unfold Rmax. repeat (destruct (Rle_dec _ _)); lra.
Qed.
