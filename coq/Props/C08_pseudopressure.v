(* C08: the three pseudopressure routes.  Table routes: theorems on the cumulative trapezoid of
   the translated builder / stand-alone transform (zero first, linear, strictly increasing,
   additive, and the two table routes are the *same* numbers).  Quadrature route: the translated
   pseudopressure_Hussainy is the quadrature oracle applied to 2p/(mu Z); with the oracle's
   contract (it returns the Riemann integral) it is zero at the reference pressure, additive and
   strictly increasing for a positive continuous integrand. *)
From Coq Require Import Reals List Lra Lia.
From Coquelicot Require Import Coquelicot.
From BBLib Require Import PyPrelude Trapz.
From BBRun Require Import Gen_gas Gen_fluid.
Import ListNotations.
Open Scope R_scope.

(* the stand-alone transform is the cumulative trapezoid of 2p/(mu z) over pressure ... *)
Theorem C08_standalone_is_cumtrapz : forall P mu z,
  pseudopressure P mu z = cumtrapz (vdiv (smul 2 P) (vmul mu z)) P.
Proof. reflexivity. Qed.
Print Assumptions C08_standalone_is_cumtrapz.

(* ... and the builder's column 2 * cumtrapz(p/(mu z)) is exactly the same list *)
Theorem C08_builder_equals_standalone : forall P mu z,
  smul 2 (cumtrapz (vdiv P (vmul mu z)) P) = pseudopressure P mu z.
Proof. intros. unfold pseudopressure. rewrite vdiv_smul, cumtrapz_scal. reflexivity. Qed.
Print Assumptions C08_builder_equals_standalone.

Theorem C08_table_zero_at_first_pressure : forall P mu z, P <> [] -> mu <> [] -> z <> [] ->
  nth 0 (pseudopressure P mu z) 0 = 0.
Proof.
  intros P mu z HP Hmu Hz. unfold pseudopressure; cbv zeta. apply cumtrapz_first.
  destruct P, mu, z; try contradiction. discriminate.
Qed.
Print Assumptions C08_table_zero_at_first_pressure.

Theorem C08_table_strictly_increasing : forall y x,
  length x = length y -> Trapz.increasing x -> List.Forall (fun v => 0 < v) y ->
  match cumtrapz y x with [] => True | a :: t => a = 0 /\ chain_lt a t end.
Proof. exact cumtrapz_strictly_increasing. Qed.
Print Assumptions C08_table_strictly_increasing.

Theorem C08_table_additive : forall y0 y1 yt x0 x1 xt,
  tl (cumtrapz (y0 :: y1 :: yt) (x0 :: x1 :: xt))
  = map (fun v => v + (x1 - x0) * (y0 + y1) / 2) (cumtrapz (y1 :: yt) (x1 :: xt)).
Proof. exact cumtrapz_suffix. Qed.
Print Assumptions C08_table_additive.

(* positivity of the integrand 2p/(mu z) for positive columns *)
Lemma integrand_positive : forall P mu z, List.Forall (fun v => 0 < v) P -> List.Forall (fun v => 0 < v) mu ->
  List.Forall (fun v => 0 < v) z -> List.Forall (fun v => 0 < v) (vdiv (smul 2 P) (vmul mu z)).
Proof.
  induction P as [|p Pt IH]; intros mu z HP Hmu Hz; [constructor|].
  destruct mu as [|m mt]; [constructor|]. destruct z as [|zz zt]; [constructor|].
  inversion HP; inversion Hmu; inversion Hz; subst.
  change (vdiv (smul 2 (p :: Pt)) (vmul (m :: mt) (zz :: zt)))
    with ((2 * p) / (m * zz) :: vdiv (smul 2 Pt) (vmul mt zt)).
  constructor; [|now apply IH].
  apply Rdiv_lt_0_compat; [lra|now apply Rmult_lt_0_compat].
Qed.

Theorem C08_standalone_strictly_increasing : forall P mu z,
  length mu = length P -> length z = length P -> Trapz.increasing P ->
  List.Forall (fun v => 0 < v) P -> List.Forall (fun v => 0 < v) mu -> List.Forall (fun v => 0 < v) z ->
  match pseudopressure P mu z with [] => True | a :: t => a = 0 /\ chain_lt a t end.
Proof.
  intros P mu z Hm Hz Hinc HP Hmu Hzp. unfold pseudopressure; cbv zeta.
  apply cumtrapz_strictly_increasing; [|exact Hinc|now apply integrand_positive].
  unfold vdiv, vmul, vmap2, smul. repeat (rewrite ?map_length, ?combine_length). lia.
Qed.
Print Assumptions C08_standalone_strictly_increasing.

(* quadrature route *)
Theorem C08_hussainy_is_quadrature_of_2p_over_muZ : forall brentq quad T p Tpc Ppc sg pstd,
  pseudopressure_Hussainy brentq quad T p Tpc Ppc sg pstd
  = quad (fun q => 2 * q / (viscosity_Sutton brentq T q Tpc Ppc sg * z_factor_DAK brentq T q Tpc Ppc)) pstd p.
Proof. reflexivity. Qed.
Print Assumptions C08_hussainy_is_quadrature_of_2p_over_muZ.

Section Quad.
  Variable f : R -> R.
  Hypothesis f_cont : forall x, continuous f x.
  Hypothesis f_pos : forall x, 0 < x -> 0 < f x.
  Definition m (a p : R) := RInt f a p.

  Lemma f_int a b : ex_RInt f a b.
  Proof. apply (ex_RInt_continuous f). intros; apply f_cont. Qed.

  Theorem quad_zero_at_reference a : m a a = 0.
  Proof. unfold m. exact (RInt_point a f). Qed.

  Theorem quad_additive a b c : m a b + m b c = m a c.
  Proof. unfold m. apply (RInt_Chasles f a b c); apply f_int. Qed.

  Theorem quad_strictly_increasing a p q : 0 < p -> p < q -> m a p < m a q.
  Proof.
    intros Hp Hpq. rewrite <- (quad_additive a p q).
    assert (0 < m p q); [|lra].
    unfold m. apply RInt_gt_0; [exact Hpq| |].
    - intros x Hx. apply f_pos. lra.
    - intros x Hx. apply f_cont.
  Qed.
End Quad.

Theorem C08_quadrature_zero_additive_increasing : forall f : R -> R,
  (forall x, continuous f x) -> (forall x, 0 < x -> 0 < f x) ->
  (forall a, RInt f a a = 0) /\
  (forall a b c, RInt f a b + RInt f b c = RInt f a c) /\
  (forall a p q, 0 < p -> p < q -> RInt f a p < RInt f a q).
Proof.
  intros f Hc Hp. repeat split.
  - intros. now apply quad_zero_at_reference.
  - intros. now apply quad_additive.
  - intros. now apply quad_strictly_increasing.
Qed.
Print Assumptions C08_quadrature_zero_additive_increasing.

Example C08_hypotheses_inhabited :
  Trapz.increasing [10; 20; 30] /\ List.Forall (fun v => 0 < v) [2; 3; 5].
Proof. simpl. repeat split; try lra. repeat constructor; lra. Qed.
